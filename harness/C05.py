"""C05 -- concatenation keeps each operand's per-character styles; no bleed at the seam."""
from typing import Optional

from engine.api import Ob, pick, choose, cover, selftest_ob
from ref import term
from ref.view import S, TEXT, SIGMA, build2, norm_slice, ranges, same_table, snapshot

from ansi_string import AnsiString, AnsiStr

LEVEL = 'model_checking'
SIG3 = (SIGMA[0], SIGMA[2], SIGMA[1])        # red, bold, blue
TEXT_B = 'uvwxyz'


SIG2 = (SIGMA[0], SIGMA[1])                   # red, blue (conflicting pair)


def build_b(n, k, s1, r1, s2, r2, sigma=SIG3):
    s = AnsiString(TEXT_B[:n])
    steps = ((s1, r1),) if k == 1 else ((s1, r1), (s2, r2)) if k == 2 else ()
    for sel, rng in steps:
        st = choose(sel, sigma)
        r = choose(rng, ranges(n))
        if st is None or r is None:
            return None
        s.apply_formatting(st[0], r[0], r[1])
    return s


def check_cat(res, ta, tb, tab_a, tab_b):
    na, nb = len(ta), len(tb)
    if res.base_str != ta + tb:
        return ('cat-text', res.base_str)
    got = S(res, na + nb)
    for i in range(na):
        if not term.same(got[i], tab_a[i]):
            return ('left-operand-style-changed', i, tab_a[i], got[i])
    for j in range(nb):
        if not term.same(got[na + j], tab_b[j]):
            return ('right-operand-style-changed', j, tab_b[j], got[na + j])
    # rendering agrees with the table
    cells, _, _ = term.interpret(str(res))
    if len(cells) != na + nb:
        return ('render-length', str(res))
    for i in range(na + nb):
        if cells[i][1] != term.red(got[i]):
            return ('render-differs', i, str(res), got[i])
    return None


def h_cat(na: int, ka: int, a1: int, ar1: int, a2: int, ar2: int, at2: bool,
          nb: int, kb: int, b1: int, br1: int, b2: int, br2: int, form: int, bsig=SIG3):
    """form: 0 a+b, 1 a+=b, 2 join(a,b), 3 b is AnsiStr, 4 a is AnsiStr (a+b), 5 b plain str, 6 plain str + via join('x', b)."""
    a = build2(na, ka, a1, ar1, a2, ar2, at2, SIG3)
    if a is None:
        return None
    b = build_b(nb, kb, b1, br1, b2, br2, bsig)
    if b is None:
        return None
    fm = pick(form, 0, 6)
    if fm is None:
        return None
    ta, tb = TEXT[:na], TEXT_B[:nb]
    tab_a, tab_b = S(a, na), S(b, nb)
    snap_a, snap_b = snapshot(a), snapshot(b)
    if na and nb and tab_a[na - 1] and tab_b[0]:
        if sorted(tab_a[na - 1]) == sorted(tab_b[0]):
            cover('seam-same')
        elif all(x in tab_a[na - 1] for x in tab_b[0]) or all(x in tab_b[0] for x in tab_a[na - 1]):
            cover('seam-prefix')
        else:
            cover('seam-different')
    if na == 0 or nb == 0:
        cover('empty-operand')
    if fm == 0:
        res = a + b
    elif fm == 1:
        res = a.copy()
        r2 = res.__iadd__(b)
        if r2 is not res:
            return ('iadd-not-self',)
    elif fm == 2:
        res = AnsiString.join(a, b)
    elif fm == 3:
        res = a + AnsiStr(b)
    elif fm == 4:
        res = AnsiStr(a) + b
        if not isinstance(res, AnsiStr):
            return ('ansistr-add-type', type(res).__name__)
    elif fm == 5:
        res = a + tb
        tab_b = [[] for _ in range(nb)]
    else:
        res = AnsiString.join(ta, b)
        tab_a = [[] for _ in range(na)]
    bad = check_cat(res, ta, tb, tab_a, tab_b)
    if bad:
        return bad + (fm,)
    if snapshot(a) != snap_a:
        return ('left-operand-mutated', fm, snap_a, snapshot(a))
    if snapshot(b) != snap_b:
        return ('right-operand-mutated', fm, snap_b, snapshot(b))
    cover('cat')
    return True


def h_self(n: int, k: int, s1: int, r1: int, s2: int, r2: int, t2: bool, inplace: bool):
    """A value concatenated with itself."""
    a = build2(n, k, s1, r1, s2, r2, t2, SIG3)
    if a is None:
        return None
    t = TEXT[:n]
    tab = S(a, n)
    if inplace:
        res = a
        res += a
    else:
        res = a + a
        if S(a, n) != tab:
            return ('operand-mutated', tab, S(a, n))
    bad = check_cat(res, t, t, tab, tab)
    if bad:
        return bad
    z = res + 'x'
    if [str(x) for x in z.ansi_settings_at(2 * n)] != []:
        return ('self-cat-not-closed', S(z))
    z2 = res + AnsiString('x', 'underline')
    if [str(x) for x in z2.ansi_settings_at(2 * n)] != ['4']:
        return ('self-cat-not-closed', S(z2))
    cover('self-cat')
    return True


def h_join3(n: int, s1: int, r1: int, s2: int, r2: int, s3: int, r3: int, mid: int):
    """join(a, b, c) equals (a + b) + c."""
    a = build_b(n, 1, s1, r1, 0, 0)
    b = build_b(n, 1, s2, r2, 0, 0)
    c = build_b(n, 1, s3, r3, 0, 0)
    if a is None or b is None or c is None:
        return None
    m = pick(mid, 0, 2)
    if m is None:
        return None
    bb = b if m == 0 else (b.base_str if m == 1 else AnsiStr(b))
    j = AnsiString.join(a, bb, c)
    e = (a + bb) + c
    if not (j == e) or str(j) != str(e) or j.base_str != e.base_str or not same_table(S(j), S(e)):
        return ('join-differs-from-adds', str(j), str(e))
    if AnsiString.join().base_str != '' or AnsiString.join(a).base_str != a.base_str or not (AnsiString.join(a) == a):
        return ('join-degenerate',)
    cover('join3')
    return True


def h_split_rejoin(n: int, k: int, s1: int, r1: int, s2: int, r2: int, t2: bool, x: int):
    """s[:x] + s[x:] has the same per-character settings as s and renders display-identically."""
    s = build2(n, k, s1, r1, s2, r2, t2, SIG3)
    if s is None:
        return None
    tab = S(s, n)
    j = s[:x] + s[x:]
    if j.base_str != TEXT[:n]:
        return ('rejoin-text', x, j.base_str)
    if not same_table(S(j, n), tab):
        return ('rejoin-settings', x, tab, S(j, n))
    c1, f1, _ = term.interpret(str(s))
    c2, f2, _ = term.interpret(str(j))
    if c1 != c2 or f1 != f2:
        return ('rejoin-renders-differently', x, str(s), str(j))
    if 0 < x < n:
        cover('inner-split')
        if tab[x - 1] and tab[x - 1] == tab[x]:
            cover('split-inside-span')
    else:
        cover('outer-split')
    return True


def h_bad_type(which: int):
    v = choose(which, (1, None, 1.5, b'x', ['a']))
    if which < 0 or which > 4:
        return None
    a = AnsiString('ab', 'red')
    snap = snapshot(a)
    for f in (lambda: a + v, lambda: a.__iadd__(v), lambda: AnsiString.join(a, v), lambda: AnsiString.join(v, a),
              lambda: AnsiStr(a) + v):
        try:
            f()
        except TypeError:
            pass
        else:
            return ('no-typeerror', repr(v))
        if snapshot(a) != snap:
            return ('changed-after-error', repr(v))
    cover('typeerror')
    return True


BOUNDS = {
    'quick': 'left operand: <=2 apply steps on n<=2 over (red, bold, blue); right operand: <=2 apply steps n<=2; 7 operand forms '
             '(+, +=, join, AnsiStr left/right, plain str left/right); a+a / a+=a; 3-way join; split point ALL integers',
    'thorough': 'operands up to n=3 with 2 apply steps; split-rejoin on 2-step receivers n<=4',
}
OUTSIDE = 'operands needing more builder steps; operands produced by padding/slicing (covered under C12/C04 closure checks)'
ASSUMPTIONS = []
KINDS = 'E: operand shapes (selectors, ranges), operand form; O: split point'


def obligations(tier):
    obs = [selftest_ob()]
    za = dict(a2=0, ar2=0, at2=False)
    zb = dict(b2=0, br2=0)
    # 1-step operands incl. empty operands
    for na in (0, 1, 2):
        for nb in (0, 1, 2):
            fa = dict(na=na, ka=1 if na else 0, **za)
            fb = dict(nb=nb, kb=1 if nb else 0, **zb)
            if not na:
                fa.update(a1=0, ar1=0)
            if not nb:
                fb.update(b1=0, br1=0)
            obs.append(Ob('cat/1x1/%d+%d' % (na, nb), h_cat, dict(fa, **fb), need=('cat',), budget=600,
                          bounds='lengths %d+%d, one apply step each' % (na, nb), kinds=KINDS))
    # 2-step operands: seam shapes
    for a1 in range(3):
        for ar1 in range(3):
            f = dict(na=2, ka=2, a1=a1, ar1=ar1, at2=True, nb=2, kb=2)
            if tier == 'quick':
                f.update(kb=1, **zb)
            obs.append(Ob('cat/2x%d/a%d/r%d' % (f['kb'], a1, ar1), h_cat, f, need=('cat', 'seam-same', 'seam-different') if ar1 else ('cat',),
                          budget=900 if tier == 'quick' else 3000,
                          bounds='lengths 2+2, left 2 apply steps, right %d' % f['kb'], kinds=KINDS))
    if tier == 'quick':
        # right operand with two stacked settings of the conflicting pair (hidden / equal-valued nested settings)
        for a1 in (0, 2):
            for ar1 in range(3):
                obs.append(Ob('cat/2x2c/a%d/r%d' % (a1, ar1), h_cat, dict(na=2, ka=2, a1=a1, ar1=ar1, at2=True, nb=2, kb=2, bsig=SIG2),
                              need=('cat',), budget=900, bounds='lengths 2+2, left 2 apply steps, right 2 steps over (red, blue)', kinds=KINDS))
    for n in (1, 2) if tier == 'quick' else (1, 2, 3):
        obs.append(Ob('self/n%d' % n, h_self, dict(n=n, k=2), need=('self-cat',), budget=600, bounds='n=%d, 2 apply steps, a+a and a+=a' % n, kinds=KINDS))
    obs.append(Ob('join3/n1', h_join3, dict(n=1), need=('join3',), budget=300, bounds='three 1-char operands', kinds=KINDS))
    for s1 in range(3):
        for r1 in range(3):
            obs.append(Ob('join3/n2/s%d/r%d' % (s1, r1), h_join3, dict(n=2, s1=s1, r1=r1), need=('join3',), budget=900,
                          bounds='three 2-char operands', kinds=KINDS))
    for n in (1, 2, 3):
        obs.append(Ob('split/b1/n%d' % n, h_split_rejoin, dict(n=n, k=1, s2=0, r2=0, t2=False), need=('outer-split',) + (('inner-split',) if n > 1 else ()),
                      budget=600, bounds='n=%d, 1 apply step' % n, kinds=KINDS))
    for n in (2, 3) if tier == 'quick' else (2, 3, 4):
        for s1 in range(3):
            obs.append(Ob('split/b2/n%d/s%d' % (n, s1), h_split_rejoin, dict(n=n, k=2, s1=s1), need=('inner-split', 'split-inside-span'),
                          budget=900 if tier == 'quick' else 3000, bounds='n=%d, 2 apply steps' % n, kinds=KINDS))
    obs.append(Ob('bad-type', h_bad_type, {}, need=('typeerror',), budget=60, bounds='5 unsupported operand types', kinds=KINDS))
    return obs
