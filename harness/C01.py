"""C01 -- rendered output displays the text with exactly the reported per-character styles."""
from engine.api import Ob, pick, choose, cover, selftest_ob
from ref import term
from ref.view import S, TEXT, SIGMA, build2, ranges, check_render

# structural alphabet + verbatim settings holding several groups (rendered verbatim; the terminal reads every code)
SIGMA1 = SIGMA + (('[38;5;9;1', '38;5;9;1'), ('[1;31', '1;31'), ('[48;2;1;2;3;4', '48;2;1;2;3;4'),
                  (['red', 'blue', 'red'], None), (['bold', 'italic', 'underline'], None), (['overlined', 'framed', 'fg_default'], None))

from ansi_string import AnsiString, AnsiStr

LEVEL = 'model_checking'

# one set code and the clear code per effect group, a second value for groups with several
REPS = (1, 22, 2, 3, 23, 4, 24, 21, 53, 55, 5, 25, 6, 7, 27, 8, 28, 9, 29, 11, 10, 12, 26, 50, 51, 54, 52,
        31, 39, 34, 41, 49, 44, 59, 0, '[38;5;9', '[48;2;1;2;3', '[58;5;1', '[58;2;9;8;7', 91, 101, 60)
REPS_Q = (1, 22, 31, 39, '[38;5;9', 4, 0, 10)


def h_pair(n: int, k: int, s1: int, r1: int, s2: int, r2: int, t2: bool, post: int):
    s = build2(n, k, s1, r1, s2, r2, t2, SIGMA1)
    if s is None:
        return None
    p = pick(post, 0, 6)
    if p is None:
        return None
    if p == 1:
        s = s[1:]
    elif p == 2:
        s = s.ljust(n + 2, '.')
    elif p == 3:
        s = s + 'z'
    elif p == 4:
        s = AnsiString(str(s))
    elif p == 5:
        s = AnsiStr(s)
    elif p == 6:
        # an AnsiStr from which other values were derived still renders what it reports
        s = AnsiStr(s)
        s.remove_formatting('red')
        s.remove_formatting()
        s.unformat_matching('a')
        s.apply_formatting('underline', 0, 1, topmost=False)
        AnsiString(s).remove_formatting()
    bad = check_render(s)
    if bad:
        return bad + (p,)
    tab = S(s)
    if len(tab) >= 2 and tab[0] and tab[1] and tab[0] != tab[1]:
        cover('style-change-mid-string')
    if any(len(x) >= 2 for x in tab):
        cover('stacked')
    if tab and not tab[0] and any(tab):
        cover('starts-unstyled')
    cover('rendered')
    return True


def _apply_code(s, code, a, b):
    s.apply_formatting(code, a, b)


def h_sweep(f: int, y: int, shape: int, reps=REPS):
    """Free SGR code f (0..256) next to / below / above a representative code."""
    v = pick(f, 0, 256)
    if v is None:
        return None
    if v in (38, 48, 58):
        cover('introducer-skipped')
        return None                         # a bare introducer is not a well-formed group
    r = choose(y, reps)
    if r is None:
        return None
    sh = pick(shape, 0, 3)
    if sh is None:
        return None
    s = AnsiString('abc')
    if sh == 0:      # adjacent: f then rep
        _apply_code(s, v, 0, 1)
        _apply_code(s, r, 1, 2)
    elif sh == 1:    # adjacent: rep then f
        _apply_code(s, r, 0, 1)
        _apply_code(s, v, 1, 2)
    elif sh == 2:    # f below, rep on top from the middle
        _apply_code(s, v, 0, 3)
        _apply_code(s, r, 1, 2)
    else:            # rep below, f on top from the middle
        _apply_code(s, r, 0, 3)
        _apply_code(s, v, 1, 2)
    bad = check_render(s)
    if bad:
        return bad + (v, r, sh)
    if v not in term.KNOWN:
        cover('unknown-code')
    cover('swept')
    return True


BOUNDS = {
    'quick': 'values from <=2 apply steps at n=2 over a 14-setting alphabet incl. 3 multi-group verbatim settings and 3 three-setting lists (all canonical ranges, topmost both), each also sliced / padded / '
             'concatenated / re-parsed / as AnsiStr; all 8 optimize/reset_start/reset_end combinations; free SGR code 0..256 against 8 '
             'representative codes in 4 span shapes',
    'thorough': 'values from 2 apply steps at n=3; free code against %d representative codes (one set + the clear code of each of the 14 '
                'effect groups, extended colours, bright colours, unknown) in 4 span shapes' % len(REPS),
}
OUTSIDE = ('prior terminal state when reset_start=False; settings that are not well-formed groups (bare 38/48/58, non-numeric); values needing more than 2 apply steps')
ASSUMPTIONS = ['code 10 (primary font) is read as the default font; unknown codes are ignored by the terminal']
KINDS = 'E: builder selectors, ranges, topmost, post-operation, free code 0..256, representative code, span shape (flags looped inside)'


def obligations(tier):
    obs = [selftest_ob()]
    z = dict(s2=0, r2=0, t2=False)
    obs.append(Ob('pair/b1/n2', h_pair, dict(n=2, k=1, **z), need=('rendered', 'starts-unstyled'), budget=600,
                  bounds='n=2, 1 apply step, 7 post-operations', kinds=KINDS))
    n2 = 2 if tier == 'quick' else 3
    for s1 in range(len(SIGMA1)):
        for r1 in range(len(ranges(n2))):
            obs.append(Ob('pair/b2/n%d/s%d/r%d' % (n2, s1, r1), h_pair, dict(n=n2, k=2, s1=s1, r1=r1),
                          need=('rendered',), budget=900 if tier == 'quick' else 3000,
                          bounds='n=%d, 2 apply steps' % n2, kinds=KINDS))
    reps = REPS_Q if tier == 'quick' else REPS
    for y in range(len(reps)):
        obs.append(Ob('sweep/rep%d' % y, h_sweep, dict(y=y, reps=reps), need=('swept', 'unknown-code'), budget=900,
                      bounds='free code 0..256 x representative %r x 4 shapes' % (reps[y],), kinds=KINDS))
    return obs
