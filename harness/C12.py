"""C12 -- padding / format-spec: text as format(), fill styled only when extending."""
from engine.api import Ob, pick, choose, cover, selftest_ob
from ref import term
from ref.view import S, TEXT, SIGMA, ranges, snapshot

from ansi_string import AnsiString, AnsiStr

LEVEL = 'model_checking'
ESC = '\x1b'
SIG = (SIGMA[0], SIGMA[2], SIGMA[5])     # red, bold, [38;5;9


def build(n, k, s1, r1, s2, r2):
    s = AnsiString(TEXT[:n])
    for sel, rng, on in ((s1, r1, k >= 1), (s2, r2, k >= 2)):
        if not on:
            continue
        st = choose(sel, SIG)
        if st is None:
            return None
        r = choose(rng, ranges(n))
        if r is None:
            return None
        s.apply_formatting(st[0], r[0], r[1])
    return s


def pad_text(t, fill, align, width):
    pad = width - len(t)
    if pad <= 0:
        return t, 0, 0
    if align == '<':
        return t + fill * pad, 0, pad
    if align == '>':
        return fill * pad + t, pad, 0
    left = pad // 2
    return fill * left + t + fill * (pad - left), left, pad - left


def check_padded(res, t, tab, fill, align, width, extend, extra=None):
    """res: padded value; tab: per-character settings of the original; extra: settings (texts) applied by the ansi part."""
    n = len(t)
    exp_text, left, right = pad_text(t, fill, align, width)
    if res.base_str != exp_text:
        return ('pad-text', res.base_str, exp_text)
    m = len(exp_text)
    got = S(res, m)
    for i in range(m):
        if left <= i < left + n:
            want = list(tab[i - left])
            inner = True
        elif not extend or n == 0:
            want = []
            inner = False
        elif i < left:
            want = list(tab[0])
            inner = False
        else:
            want = list(tab[n - 1])
            inner = False
        if extra and (inner or extend):
            want = want + list(extra)
        if not term.same(got[i], want):
            return ('pad-style', i, got[i], want, exp_text)
    z = res + 'z'
    if [str(x) for x in z.ansi_settings_at(m)] != []:
        return ('pad-not-closed', exp_text, S(z))
    cells, _, _ = term.interpret(str(z))
    if cells[m][1] != {}:
        return ('pad-render-open', str(z))
    if left:
        cover('left-fill')
    if right:
        cover('right-fill')
    if left + right and (left + right) % 2:
        cover('odd-padding')
    return None


def h_method(n: int, k: int, s1: int, r1: int, s2: int, r2: int, m: int, w: int, fill: str, ext: bool, inplace: bool):
    if len(fill) != 1 or fill == ESC:
        return None
    s = build(n, k, s1, r1, s2, r2)
    name = choose(m, ('ljust', 'rjust', 'center', 'zfill'))
    if s is None or name is None:
        return None
    if w > n + 4:
        return None
    if w < 0:
        cover('negative-width')          # unbounded below: stays symbolic
        wv = 0
    else:
        w = pick(w, 0, n + 4)            # non-negative widths allocate: enumerated (center: see lemma center-floor)
        wv = w
    t = TEXT[:n]
    tab = S(s, n)
    snap = snapshot(s)
    if name == 'zfill':
        if not ext:
            return None
        res = s.zfill(w, inplace=bool(inplace))
        f, al, e = '0', '>', True
    else:
        res = getattr(s, name)(w, fill, inplace=bool(inplace), extend_formatting=bool(ext))
        f, al, e = fill, {'ljust': '<', 'rjust': '>', 'center': '^'}[name], bool(ext)
    if inplace:
        if res is not s:
            return ('inplace-not-self', name)
    else:
        if res is s:
            return ('not-inplace-returns-self', name)
        if snapshot(s) != snap:
            return ('receiver-changed', name)
    bad = check_padded(res, t, tab, f, al, wv, e)
    if bad:
        return bad + (name, w, fill, ext)
    cover('extend' if e else 'no-extend')
    return True


FILLS = (None, ' ', ':', '+', '-', '0', 'x', '<', '5')
SIGNS = (None, '+', '-')
ALIGNS = (None, '<', '>', '^')
ANSI = (None, 'red', 'bold;rgb(1,2,3)', '', '[4', 'ul_color256(9)', 'bold;red')
ANSI_TEXT = ((), ('31',), ('1', '38;2;1;2;3'), (), ('4',), ('4', '58;5;9'), ('1', '31'))


def h_spec(n: int, s1: int, r1: int, fi: int, sg: int, al: int, w: int, an: int, cls: int, via: int, wide=False, n_ansi=4):
    s = build(n, 1 if n else 0, s1, r1, 0, 0)
    if s is None:
        return None
    if n == 0 and (s1 != 0 or r1 != 0):
        return None
    if pick(fi, 0, len(FILLS) - 1) is None:
        return None
    fill = choose(fi, FILLS)
    if pick(sg, 0, 2) is None:
        return None
    sign = choose(sg, SIGNS)
    if pick(al, 0, 3) is None:
        return None
    align = choose(al, ALIGNS)
    if pick(an, 0, n_ansi - 1) is None:
        return None
    ansi = choose(an, ANSI[:n_ansi])
    width = choose(w, (-1, 0, n - 1, n, n + 1, n + 2, n + 3) if wide else (-1, max(n - 1, 0), n, n + 1, n + 2, n + 3))
    if width is None:
        return None
    if align is None and (fill is not None or sign is not None):
        return None                      # without an alignment character only a bare width is in the grammar
    if sign is not None and fill is None:
        return None                      # a sign directly before the alignment is read as the fill character
    spec = (fill or '') + (sign or '') + (align or '') + ('' if width < 0 else str(width))
    if ansi is not None:
        spec += ':' + ansi
    if spec == ':' or (spec.startswith(':') and ansi is None):
        return None                      # ':' alone: grey zone (empty string format + empty ansi part)
    t = TEXT[:n]
    tab = S(s, n)
    snap = snapshot(s)
    obj = s if cls == 0 else AnsiStr(s)
    if via == 0:
        out = format(obj, spec)
    elif via == 1:
        out = obj.to_str(spec)
    elif via == 2:
        out = ('{:' + spec + '}').format(obj) if '{' not in spec and '}' not in spec else format(obj, spec)
    else:
        return None
    if snapshot(s) != snap:
        return ('format-changed-receiver', spec)
    extend = sign != '-'
    wd = width if width >= 0 else 0
    # expected: padding + apply_formatting on a copy
    c = s.copy()
    if align == '>':
        c.rjust(wd, fill or ' ', inplace=True, extend_formatting=extend)
    elif align == '^':
        c.center(wd, fill or ' ', inplace=True, extend_formatting=extend)
    else:
        c.ljust(wd, fill or ' ', inplace=True, extend_formatting=extend)
    exp_text, left, right = pad_text(t, fill or ' ', align or '<', wd)
    if ansi:
        if extend:
            c.apply_formatting(ansi)
        else:
            c.apply_formatting(ansi, left, left + n)
    # (1) statement-level oracle on the parsed output
    back = AnsiString(out)
    if back.base_str != exp_text:
        return ('spec-text', spec, back.base_str, exp_text)
    cells, _, _ = term.interpret(out)
    m = len(exp_text)
    if len(cells) != m:
        return ('spec-render-length', spec, out)
    extra = ANSI_TEXT[pick(an, 0, n_ansi - 1)]
    for i in range(m):
        inner = left <= i < left + n
        if not inner and not extend:
            if cells[i][1] != {}:
                return ('fill-styled-without-extend', spec, i, out)
            continue
        # the ansi part is applied like apply_formatting: it shows at least where the character had no setting of that group
        base_tab = tab[i - left] if inner else ([] if n == 0 else (tab[0] if i < left else tab[n - 1]))
        touched = set(term.group_of(x) for x in base_tab)
        want_extra = term.red(list(extra))
        for g, v in want_extra.items():
            if g not in touched and cells[i][1].get(g) != v:
                return ('ansi-part-missing', spec, i, out)
        for g in touched:
            if g not in want_extra and cells[i][1].get(g) != term.red(base_tab).get(g):
                return ('original-style-lost', spec, i, out)
    # (2) equals padding + apply_formatting on a copy
    cells2, fin2, _ = term.interpret(str(c))
    if cells2 != cells:
        return ('spec-differs-from-pad-then-apply', spec, out, str(c))
    if left + right:
        cover('padded')
    if ansi:
        cover('ansi-part')
    if not extend:
        cover('no-extend')
    if fill in (':', '+', '-', '0', '5'):
        cover('special-fill')
    return True


def h_method_ansistr(n: int, s1: int, r1: int, m: int, w1: int, w2: int, fi: int):
    """AnsiStr padding methods: same text as the AnsiString method, receiver untouched, repeatable."""
    s = build(n, 1, s1, r1, 0, 0)
    if s is None:
        return None
    name = choose(m, ('ljust', 'rjust', 'center', 'zfill'))
    if name is None:
        return None
    fill = choose(fi, (' ', '0', ':'))
    if fill is None:
        return None
    wa = pick(w1, 0, n + 3)
    if wa is None:
        return None
    wb = pick(w2, 0, n + 3)
    if wb is None:
        return None
    a = AnsiStr(s)
    snap = (a.base_str, S(a), str.__str__(a))
    for w in (wa, wb):
        if name == 'zfill':
            r, e = a.zfill(w), s.zfill(w)
        else:
            r, e = getattr(a, name)(w, fill), getattr(s, name)(w, fill)
        if not isinstance(r, AnsiStr) or r.base_str != e.base_str or S(r) != S(e) or str(r) != str(e):
            return ('ansistr-pad-differs', name, w, r.base_str, e.base_str)
        if (a.base_str, S(a), str.__str__(a)) != snap:
            return ('ansistr-pad-changed-receiver', name, w, snap, (a.base_str, S(a)))
    cover('ansistr-pad')
    return True


BAD_SPECS = ('x5', '+5', ' 5', 'ab<5', '5x', '<5.2', '>-5', '^+3', '- 5', 'xx', '<5s', '=5', '<+5', '> 5', '*', '-', 'a+b<5')


def h_bad_spec(b: int, cls: int, an: int):
    spec = choose(b, BAD_SPECS)
    ansi = choose(an, (None, 'red'))
    if spec is None or pick(an, 0, 1) is None or cls not in (0, 1):
        return None
    if ansi:
        spec = spec + ':' + ansi
    s = AnsiString('ab', 'bold')
    snap = snapshot(s)
    obj = s if cls == 0 else AnsiStr(s)
    for f in (lambda: format(obj, spec), lambda: obj.to_str(spec)):
        try:
            out = f()
        except ValueError:
            pass
        else:
            return ('no-valueerror', spec, out)
    if snapshot(s) != snap:
        return ('changed-after-error', spec)
    cover('rejected')
    return True


def h_bad_ansi(a: int):
    """An unknown name in the ansi part raises ValueError and leaves the receiver unchanged."""
    ansi = choose(a, ('nosuchcolor', 'rgb(1,2)', 'red;nosuch', '-1', 'rgb(x)'))
    if ansi is None:
        return None
    s = AnsiString('ab', 'bold')
    snap = snapshot(s)
    try:
        out = format(s, '>4:' + ansi)
    except ValueError:
        pass
    else:
        return ('no-valueerror', ansi, out)
    if snapshot(s) != snap:
        return ('changed-after-error', ansi)
    cover('rejected')
    return True


BOUNDS = {
    'quick': 'methods: receivers from 1 apply step on n<=3 (center: also 2 steps on n=2) over (red, bold, 38;5;9); fill = any character; width: all integers '
             '<= n+4 for ljust/rjust/zfill (enumerated -2..n+4 when negative or for center); extend flag; inplace both. Specs: fill in 9 values, '
             'sign, alignment, width absent/n..n+3, 4 ansi parts (thorough: also 0, 7 ansi parts), format()/to_str()/str.format, both classes; 18 malformed specs; 5 bad ansi parts',
    'thorough': 'receivers n<=3 with 2 apply steps; spec widths up to n+5',
}
OUTSIDE = ('widths above n+4 for the symbolic execution (the float arithmetic of center is covered by lemma center-floor for 0 <= num < 2^53); '
           'specs whose string-format part is empty and whose ansi part is digits only (":5" is read as fill ":" width 5 without alignment)')
ASSUMPTIONS = ['a sign directly before the alignment character is the fill character (greedy reading of the grammar)']
KINDS = 'C: fill character (any); O: width bounded above; E: builder selectors, method, flags, spec components'


def obligations(tier):
    q = tier == 'quick'
    obs = [selftest_ob()]
    from engine.lemmas import lemma_center_floor
    obs.append(Ob('lemma/center-floor', lemma_center_floor, {}, budget=300,
                  bounds='0 <= num < 2^53: floor(fp64(num)/2.0) == num div 2 (QF_BVFP; z3 + cvc5; term taken from the AST of center)',
                  kinds='O: num (53-bit)'))
    z = dict(s2=0, r2=0)
    for m in range(4):
        for n in (0, 1, 2, 3):
            f = dict(n=n, k=1 if n else 0, m=m, **z)
            if n == 0:
                f.update(s1=0, r1=0)
            obs.append(Ob('method/m%d/n%d/k1' % (m, n), h_method, f, need=('extend',) + (('no-extend',) if m != 3 else ()), budget=900,
                          bounds='n=%d, 1 apply step' % n, kinds=KINDS))
        for n in (((2,) if m == 2 else ()) if q else (2, 3)):
            for s1 in range(3):
                obs.append(Ob('method/m%d/n%d/k2/s%d' % (m, n, s1), h_method, dict(n=n, k=2, m=m, s1=s1), need=('extend',), budget=1500,
                              bounds='n=%d, 2 apply steps' % n, kinds=KINDS))
    obs.append(Ob('method-ansistr/n2', h_method_ansistr, dict(n=2), need=('ansistr-pad',), budget=900, bounds='AnsiStr ljust/rjust/center/zfill, two calls in a row, 3 fills, widths 0..n+3', kinds=KINDS))
    for fi in (0, 1, 6):
        obs.append(Ob('spec/n0/f%d' % fi, h_spec, dict(n=0, fi=fi, cls=0, via=0, s1=0, r1=0), need=('padded',), budget=600, bounds='empty text, fill %r' % (FILLS[fi],), kinds=KINDS))
    for n in (1, 2):
        for fi in range(len(FILLS)):
            for cls in (0, 1):
                if cls == 1 and not (q is False or fi in (0, 2, 3)):
                    continue
                obs.append(Ob('spec/n%d/f%d/c%d' % (n, fi, cls), h_spec, dict(n=n, fi=fi, cls=cls, via=0 if cls == 0 else 1, **({} if q else dict(wide=True, n_ansi=7))),
                              need=('padded',), budget=1500, bounds='n=%d, fill %r' % (n, FILLS[fi]), kinds=KINDS))
    obs.append(Ob('spec/via-str-format', h_spec, dict(n=2, fi=6, cls=0, via=2), need=('padded',), budget=900, bounds='str.format, fill x', kinds=KINDS))
    obs.append(Ob('spec/via-to_str', h_spec, dict(n=2, fi=2, cls=0, via=1), need=('padded',), budget=900, bounds='to_str, fill ":"', kinds=KINDS))
    obs.append(Ob('bad-spec', h_bad_spec, {}, need=('rejected',), budget=300, bounds='18 malformed specs', kinds=KINDS))
    obs.append(Ob('bad-ansi', h_bad_ansi, {}, need=('rejected',), budget=100, bounds='5 bad ansi parts', kinds=KINDS))
    return obs
