"""C18 -- SGR code-list parsing agrees with a terminal's reading of the same codes."""
from engine.api import Ob, pick, choose, cover, selftest_ob
from ref import term

from ansi_string import parse_graphic_sequence, settings_to_dict, AnsiSetting

LEVEL = 'model_checking'

# class alphabet: reset, set, clear, the three extended introducers, the two selector values,
# a colour, a fg clear, a value that is only meaningful as a colour index, an unknown code
ALPHA = (0, 1, 22, 5, 2, 38, 48, 58, 39, 31, 214, 77)

PRIORS = ([], [1], [31], [1, 4, 31], [38, 5, 9, 48, 2, 1, 2, 3], [22], [58, 5, 7, 21], [11, 26, 51])


def display(d):
    """Display state of a library effect dict (values are setting objects)."""
    st = {}
    for eff, setting in d.items():
        codes = term.codes_of(str(setting))
        if codes is None:
            return None
        st.update(term.apply_codes({}, codes))
    return st


def shape_input(codes, shape):
    if shape == 0:
        return list(codes)
    if shape == 1:
        return [str(c) for c in codes]
    return ';'.join(str(c) for c in codes)


def check_parse(codes, shape, err, prior_codes=None):
    inp = shape_input(codes, shape)
    out = parse_graphic_sequence(inp, add_erroneous=err)
    for s in out:
        if not isinstance(s, AnsiSetting):
            return ('not-a-setting', repr(s))
    if not codes:
        if [str(s) for s in out] != ['0']:
            return ('empty-not-reset', [str(s) for s in out])
        cover('empty')
        return True
    if err:
        toks = [t for s in out for t in str(s).split(';')]
        if toks != [str(c) for c in codes]:
            return ('tokens-lost', codes, [str(s) for s in out])
        cover('erroneous')
        return True
    try:
        base = term.apply_codes({}, prior_codes or [])
        ref = term.apply_codes(base, codes)
    except term.Ambiguous:
        cover('ambiguous')
        return None
    if prior_codes is None:
        d = settings_to_dict(out)
    else:
        old = settings_to_dict(parse_graphic_sequence(list(prior_codes)))
        old_items = list(old.items())
        out_before = list(out)
        d = settings_to_dict(out, old)
        if list(old.items()) != old_items or any(a is not b for (_, a), (_, b) in zip(old.items(), old_items)):
            return ('old-dict-modified', codes)
        if len(out) != len(out_before) or any(a is not b for a, b in zip(out, out_before)):
            return ('settings-modified', codes)
        if d is old:
            return ('returns-old-dict', codes)
        cover('prior')
    got = display(d)
    if got != ref:
        return ('state-differs', codes, [str(s) for s in out], got, ref)
    if any(c in term.EXT for c in codes):
        cover('extended')
    return True


def h_group(L: int, a1: int, a2: int, a3: int, a4: int, shape: int, err: bool):
    sel = [a1, a2, a3, a4][:L]
    codes = []
    for a in sel:
        c = choose(a, ALPHA)
        if c is None:
            return None
        codes.append(c)
    sh = pick(shape, 0, 2)
    if sh is None:
        return None
    return check_parse(codes, sh, bool(err))


def h_reduce(L: int, p: int, a1: int, a2: int, a3: int):
    sel = [a1, a2, a3][:L]
    codes = []
    for a in sel:
        c = choose(a, ALPHA)
        if c is None:
            return None
        codes.append(c)
    prior = choose(p, PRIORS)
    if prior is None:
        return None
    return check_parse(codes, 0, False, prior_codes=prior)


# contexts for the free code: '?' marks its position
CONTEXTS = (
    ['?'], [1, '?'], ['?', 1], [38, 5, '?'], [38, '?', 7], ['?', 5, 9], [38, 2, '?', 1, 2],
    ['?', 2, 1, 2, 3], [0, '?'], ['?', 0], [4, '?', 31], [48, 5, 9, '?'], ['?', 38, 5, 9],
)


def h_free(ctx: int, f: int, shape: int, err: bool, p: int):
    c = choose(ctx, CONTEXTS)
    if c is None:
        return None
    v = pick(f, 0, 256)
    if v is None:
        return None
    sh = pick(shape, 0, 2)
    if sh is None:
        return None
    prior = choose(p, PRIORS)
    if prior is None:
        return None
    codes = [v if x == '?' else x for x in c]
    if v not in term.KNOWN:
        cover('unknown-code')
    return check_parse(codes, sh, bool(err), prior_codes=(prior if not err else None))


def h_string_forms(which: int, err: bool):
    """Blank-padded, zero-padded and empty forms."""
    # (empty fields inside a non-empty string are judged under C02, where the terminal reading is explicit)
    forms = ((' 1 ; 31', [1, 31]), ('', []), ('01;031', [1, 31]), ([], []), ('0', [0]), ([0], [0]),
             (['1', ' 31'], [1, 31]), ('38 ; 5 ; 9', [38, 5, 9]), ('00', [0]), ((), []))
    f = choose(which, forms)
    if f is None:
        return None
    inp, codes = f
    inp = list(inp) if isinstance(inp, list) else inp
    out = parse_graphic_sequence(inp, add_erroneous=bool(err))
    if not codes:
        if [str(s) for s in out] != ['0']:
            return ('empty-not-reset', inp, [str(s) for s in out])
        cover('empty')
        return True
    ref = term.apply_codes({}, codes)
    got = display(settings_to_dict(out))
    if got != ref:
        return ('state-differs', inp, [str(s) for s in out], got, ref)
    cover('string-form')
    return True


BOUNDS = {
    'quick': 'code lists of length 0..4 over the 12-code class alphabet %r x 3 input shapes x add_erroneous; '
             'one free code 0..256 in 13 contexts x 3 shapes x add_erroneous x prior state 0; reduction on top of 8 prior states for lists of length <=2' % (ALPHA,),
    'thorough': 'as quick, plus free code in 13 contexts x 8 prior states; reduction for lists of length <=3 x 8 priors',
}
OUTSIDE = ('lists longer than the bound; two free codes at once; inputs the statements leave ambiguous (extended-colour introducer '
           'followed by a selector other than 5/2 with more codes after it, colour components > 255) are excluded and counted')
ASSUMPTIONS = ['incomplete extended-colour group at the tail contributes nothing; other incomplete groups are ambiguous (excluded)']
KINDS = 'E: list length, alphabet selectors, free code 0..256, input shape, add_erroneous, prior-state selector'


def obligations(tier):
    obs = [selftest_ob()]
    maxL = 4
    for L in range(0, maxL + 1):
        fixed = dict(L=L)
        for k, nm in enumerate(('a1', 'a2', 'a3', 'a4')):
            if k >= L:
                fixed[nm] = 0
        if L >= 3:
            for a1 in range(len(ALPHA)):
                f = dict(fixed, a1=a1)
                obs.append(Ob('group/L%d/a%d' % (L, a1), h_group, f, need=('erroneous',), budget=1500,
                              bounds='length %d, first code %d' % (L, ALPHA[a1]), kinds=KINDS))
        else:
            need = ('empty',) if L == 0 else ('erroneous',)
            obs.append(Ob('group/L%d' % L, h_group, fixed, need=need, budget=600, bounds='length %d' % L, kinds=KINDS))
    maxR = 2 if tier == 'quick' else 3
    for L in range(1, maxR + 1):
        fixed = dict(L=L)
        for k, nm in enumerate(('a1', 'a2', 'a3')):
            if k >= L:
                fixed[nm] = 0
        if L == 3:
            for a1 in range(len(ALPHA)):
                obs.append(Ob('reduce/L3/a%d' % a1, h_reduce, dict(fixed, a1=a1), need=('prior',), budget=1200,
                              bounds='length 3 on top of 8 prior states', kinds=KINDS))
        else:
            obs.append(Ob('reduce/L%d' % L, h_reduce, fixed, need=('prior',), budget=600,
                          bounds='length %d on top of 8 prior states' % L, kinds=KINDS))
    for ctx in range(len(CONTEXTS)):
        fixed = dict(ctx=ctx)
        if tier == 'quick':
            fixed['p'] = 0
        obs.append(Ob('free/ctx%d' % ctx, h_free, fixed, need=('unknown-code', 'erroneous'), budget=900,
                      bounds='free code 0..256 in context %r' % (CONTEXTS[ctx],), kinds=KINDS))
    obs.append(Ob('string-forms', h_string_forms, {}, need=('string-form', 'empty'), budget=100,
                  bounds='10 blank/empty-field forms', kinds=KINDS))
    return obs
