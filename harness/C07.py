"""C07 -- remove_formatting removes exactly the requested settings, only inside the range."""
from typing import Optional

from engine.api import Ob, pick, choose, cover, selftest_ob
from ref import term
from ref.view import S, TEXT, SIGMA, build2, norm_slice, ranges

from ansi_string import AnsiString, AnsiStr

LEVEL = 'model_checking'

# (argument handed to the API, texts it selects; None = all)
SELS = ((None, None), ('red', ('31',)), (['red', 'bold'], ('31', '1')), ('blue', ('34',)),
        ('no_bold_faint', ('22',)), (('bold',), ('1',)), (';', ()), ([''], ()), ([[]], ()))
SIG3 = (SIGMA[0], SIGMA[1], SIGMA[2])          # red, blue, bold
SIG2 = (SIGMA[0], SIGMA[1])                    # red, blue (conflicting pair)


def h_remove(n: int, k: int, s1: int, r1: int, s2: int, r2: int, t2: bool, sel: int,
             c: Optional[int], d: Optional[int], sigma=SIG3, sels=(0, 1, 2, 3, 4, 5, 6, 7, 8), s3: int = 0, r3: int = 0):
    s = build2(n, k, s1, r1, s2, r2, t2, sigma, s3, r3, True)
    if s is None:
        return None
    q = choose(sel, sels)
    if q is None:
        return None
    arg, texts = SELS[q]
    t = TEXT[:n]
    before = S(s, n)
    str_before = str(s)
    lo, hi = norm_slice(c, d, n)
    if c is None:
        s.remove_formatting(arg, end=d)
    else:
        s.remove_formatting(arg, c, d)
    if s.base_str != t:
        return ('text-changed', s.base_str)
    after = S(s, n)
    if lo >= hi:
        cover('empty-range')
        if after != before or str(s) != str_before:
            return ('empty-range-not-noop', c, d, before, after)
        return True
    cover('nonempty')
    for i in range(n):
        if lo <= i < hi:
            exp = [x for x in before[i] if texts is not None and x not in texts]
            if not term.same(after[i], exp):
                return ('inside-wrong', i, before[i], after[i], exp)
            if len(exp) != len(before[i]):
                cover('removed-something')
            elif before[i]:
                cover('absent-selection')
        else:
            if not term.same(after[i], before[i]):
                return ('outside-changed', i, before[i], after[i])
            if i >= hi and len(before[i]) >= 2:
                cover('stack-after-range')
    if hi < n and any(x in before[hi - 1] for x in before[hi]):
        cover('setting-spans-range-end')
    # rendering stays consistent with the table
    cells, _, _ = term.interpret(str(s))
    if len(cells) != n:
        return ('render-length', str(s))
    for i in range(n):
        if cells[i][1] != term.red(after[i]):
            return ('render-differs', i, str(s), after[i])
    return True


def h_remove3(n: int, s1: int, r1: int, s2: int, r2: int, s3: int, r3: int, sel: int, rr: int, cls: int, t2: bool = True):
    """Three builder steps over the conflicting pair (equal-valued instances included); the removal range is canonical."""
    s = AnsiString(TEXT[:n])
    from ref.view import b1_step
    if b1_step(s, n, s1, r1, True, SIG2) is None:
        return None
    if b1_step(s, n, s2, r2, bool(t2), SIG3 if not t2 else SIG2) is None:
        return None
    if b1_step(s, n, s3, r3, True, SIG2) is None:
        return None
    q = choose(sel, (0, 1, 3, 2, 5))
    if q is None:
        return None
    rg = choose(rr, ranges(n))
    if rg is None:
        return None
    if cls not in (0, 1):
        return None
    arg, texts = SELS[q]
    before = S(s, n)
    if cls == 1:
        a = AnsiStr(s)
        s = a.remove_formatting(arg, rg[0], rg[1])
        if S(a, n) != before or not isinstance(s, AnsiStr):
            return ('ansistr-receiver-changed', before, S(a, n))
    else:
        s.remove_formatting(arg, rg[0], rg[1])
    after = S(s, n)
    for i in range(n):
        if rg[0] <= i < rg[1]:
            exp = [x for x in before[i] if texts is not None and x not in texts]
        else:
            exp = before[i]
        if not term.same(after[i], exp):
            return ('inside-wrong' if rg[0] <= i < rg[1] else 'outside-changed', i, before[i], after[i], exp)
    cells, _, _ = term.interpret(str(s))
    for i in range(n):
        if cells[i][1] != term.red(after[i]):
            return ('render-differs', i, str(s), after[i])
    if any(len(set(x)) < len(x) for x in before):
        cover('equal-instances')
    cover('removed3')
    return True


def h_clear(n: int, k: int, s1: int, r1: int, s2: int, r2: int, t2: bool):
    s = build2(n, k, s1, r1, s2, r2, t2, SIG3)
    if s is None:
        return None
    s.clear_formatting()
    if s.base_str != TEXT[:n] or any(S(s, n)) or str(s) != TEXT[:n]:
        return ('clear-leaves-settings', S(s, n), str(s))
    cover('cleared')
    return True


BOUNDS = {
    'quick': 'receivers: 1 apply step n<=2 (9 selections incl. three that scrub to nothing) and 2 apply steps n=2 over (red, blue, bold) with 4 selections; 2 apply steps n=3 over the '
             'conflicting pair (red, blue) with selections None / red; start/end ALL integers and None; 3 apply steps n=3 over (red, blue) with canonical removal ranges',
    'thorough': '2 apply steps n=3 over (red, blue, bold) x 6 selections x topmost both; 2 steps n=4 over (red, blue) with None / red; 3 steps n=3 on every first range with canonical removal ranges',
}
OUTSIDE = 'receivers needing more builder steps; selections outside the 6 listed; an empty settings list (not settled by the statement)'
ASSUMPTIONS = []
KINDS = 'O: start, end (all integers / None); E: n, builder selectors, ranges, topmost, selection'


def obligations(tier):
    obs = [selftest_ob()]
    z = dict(s2=0, r2=0, t2=False)
    for n in (1, 2) if tier == 'quick' else (1, 2, 3):
        obs.append(Ob('remove/b1/n%d' % n, h_remove, dict(n=n, k=1, **z), need=('nonempty', 'empty-range', 'removed-something', 'absent-selection'),
                      budget=900, bounds='n=%d, 1 apply step' % n, kinds=KINDS))
    for s1 in range(3):
        for r1 in range(3):
            for s2 in range(3):
                f = dict(n=2, k=2, s1=s1, r1=r1, s2=s2)
                if tier == 'quick':
                    f['sels'] = (0, 1, 2, 3)
                obs.append(Ob('remove/b2/n2/s%d/r%d/s%d' % (s1, r1, s2), h_remove, f, need=('nonempty',),
                              budget=900, bounds='n=2, 2 apply steps', kinds=KINDS))
    for s1 in range(2):
        obs.append(Ob('remove3/ansistr/n3/s%d' % s1, h_remove3, dict(n=3, s1=s1, r1=2, cls=1), need=('removed3',), budget=900,
                      bounds='n=3, 3 apply steps over (red, blue), AnsiStr.remove_formatting, canonical ranges, 4 selections', kinds=KINDS))
        obs.append(Ob('remove3/nontop/n2/s%d' % s1, h_remove3, dict(n=2, s1=s1, r1=1, cls=0, t2=False), need=('removed3',), budget=900,
                      bounds='n=2, 3 apply steps (second one not topmost, over red/blue/bold), canonical removal ranges', kinds=KINDS))
        for r1 in (2, 4, 5) if tier == 'quick' else range(6):
            obs.append(Ob('remove3/n3/s%d/r%d' % (s1, r1), h_remove3, dict(n=3, s1=s1, r1=r1, cls=0), need=('removed3', 'equal-instances'), budget=900,
                          bounds='n=3, 3 apply steps over (red, blue) incl. equal-valued instances, canonical removal ranges, selections None/red/blue/[red,bold]/bold, AnsiString and AnsiStr', kinds=KINDS))
    obs.append(Ob('clear/b2/n2', h_clear, dict(n=2, k=2), need=('cleared',), budget=300, bounds='n=2', kinds=KINDS))
    if tier == 'quick':
        for s1 in range(2):
            for r1 in range(6):
                obs.append(Ob('remove/b2x2/n3/s%d/r%d' % (s1, r1), h_remove,
                              dict(n=3, k=2, s1=s1, r1=r1, t2=True, sigma=SIG2, sels=(0, 1)),
                              need=('nonempty', 'removed-something'), budget=900,
                              bounds='n=3, 2 apply steps over (red, blue), selections None/red', kinds=KINDS))
    else:
        for s1 in range(3):
            for r1 in range(6):
                for s2 in range(3):
                    obs.append(Ob('remove/b2/n3/s%d/r%d/s%d' % (s1, r1, s2), h_remove, dict(n=3, k=2, s1=s1, r1=r1, s2=s2, t2=True, sels=(0, 1, 2, 3)),
                                  need=('nonempty', 'removed-something'), budget=1500,
                                  bounds='n=3, 2 apply steps over (red, blue, bold), 4 selections', kinds=KINDS))
        for s1 in range(2):
            for r1 in range(10):
                obs.append(Ob('remove/b2x2/n4/s%d/r%d' % (s1, r1), h_remove,
                              dict(n=4, k=2, s1=s1, r1=r1, t2=True, sigma=SIG2, sels=(0, 1)),
                              need=('nonempty', 'removed-something'), budget=1500,
                              bounds='n=4, 2 apply steps over (red, blue), selections None/red', kinds=KINDS))
    return obs
