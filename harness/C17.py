"""C17 -- settings queries are mutually consistent."""
from typing import Optional

from engine.api import Ob, pick, choose, cover, selftest_ob
from ref.view import TEXT, SIGMA, ranges

from ansi_string import AnsiString, AnsiStr

LEVEL = 'model_checking'

SEL = ((), ('red',), ('bold',), ('red', 'bold'), ('blue',), ('[38;5;9', 'red'))
SEL_TEXT = ((), ('31',), ('1',), ('31', '1'), ('34',), ('38;5;9', '31'))
B_SIGMA = (SIGMA[0], SIGMA[2], SIGMA[1], SIGMA[5])     # red, bold, blue, [38;5;9


def build(n, k, s1, r1, s2, r2):
    """k apply steps; returns (value, expected table as list of lists of texts) or None."""
    s = AnsiString(TEXT[:n])
    exp = [[] for _ in range(n)]
    for (sel, rng, on) in ((s1, r1, k >= 1), (s2, r2, k >= 2)):
        if not on:
            continue
        st = choose(sel, B_SIGMA)
        r = choose(rng, ranges(n))
        if st is None or r is None:
            return None
        s.apply_formatting(st[0], r[0], r[1] if r[1] < n else r[1] + 7)      # an end beyond the text is the end of the text
        for i in range(r[0], r[1]):
            exp[i].append(st[1])
    return s, exp


def h_at(n: int, k: int, s1: int, r1: int, s2: int, r2: int, i: int, cls: int):
    b = build(n, k, s1, r1, s2, r2)
    if b is None:
        return None
    s, exp = b
    if cls == 1:
        s = AnsiStr(s)
    elif cls != 0:
        return None
    got = s.ansi_settings_at(i)
    txt = s.settings_at(i)
    if txt != ';'.join(str(x) for x in got):
        return ('settings_at-not-join', i, txt, [str(x) for x in got])
    if i < 0 or i >= n:
        cover('outside')
        if got != []:
            return ('outside-not-empty', i, [str(x) for x in got])
        return True
    if sorted(str(x) for x in got) != sorted(exp[i]):
        return ('inside-wrong', i, [str(x) for x in got], exp[i])
    cover('inside')
    if len(got) >= 2:
        cover('two-settings')
    return True


def h_find(n: int, k: int, s1: int, r1: int, s2: int, r2: int, sel: int, st: int, en: Optional[int], rev: bool):
    b = build(n, k, s1, r1, s2, r2)
    if b is None:
        return None
    s, exp = b
    q = pick(sel, 0, len(SEL) - 1)
    if q is None:
        return None
    want = SEL_TEXT[q]
    res = s.find_settings(list(SEL[q]), st, en, reverse=bool(rev))
    if not (isinstance(res, tuple) and len(res) == 2):
        return ('not-a-pair', repr(res))
    fs, fe = res

    def has(p):
        return 0 <= p < n and all(x in exp[p] for x in want)
    a = st
    if a < 0:
        a = a + n
        if a < 0:
            a = 0
    if en is None:
        e = n
    elif en < 0:
        e = en + n
        if e < 0:
            e = 0
    else:
        e = en
    if e < a:
        cover('end-before-start')
        if res != (None, None):
            return ('end<start-not-none', st, en, res)
        return True
    if not want:
        cover('empty-selection')
        ok_a = (fs == a) or (a > n and fs == n)
        ok_e = (fe == e) or (e > n and fe == n)
        if not (ok_a and ok_e):
            return ('empty-selection-range', st, en, res)
        return True
    hi = e if e < n else n - 1          # last character position that may count (end read as inclusive)
    cands_incl = [p for p in range(a if a < n else n, hi + 1) if has(p)]
    cands_excl = [p for p in cands_incl if p < e]
    if not cands_incl:
        cover('not-found')
        if res != (None, None):
            return ('found-where-none', st, en, res, exp)
        return True
    if fs is None:
        if cands_excl:
            return ('not-found-but-present', st, en, res, exp)
        if fe is not None:
            return ('none-with-end', res)
        cover('only-at-end-index')
        return True
    if not (isinstance(fs, int) and has(fs) and a <= fs <= e):
        return ('found_start-lacks-settings', st, en, res, exp)
    if not rev:
        if fs != cands_incl[0]:
            return ('found_start-not-first', st, en, res, exp)
    cover('found')
    # found_end: first later position in range lacking one (position n counts as lacking)
    lack = None
    p = fs + 1
    while p <= e and p <= n:
        if not has(p):
            lack = p
            break
        p += 1
    if lack is None:
        if fe is not None:
            return ('found_end-but-all-have', st, en, res, exp)
        cover('end-none')
    else:
        if fe != lack and not (fe is None and lack == e):
            return ('found_end-wrong', st, en, res, lack, exp)
        cover('end-found')
    return True


BOUNDS = {
    'quick': 'receivers: 1 apply step at n<=3, 2 apply steps at n=2 over (red, bold, blue, [38;5;9) on all canonical ranges; '
             'index / start / end: ALL integers (end also None); 6 selections; both directions; both classes for *_at',
    'thorough': '2 apply steps at n<=3; otherwise as quick',
}
OUTSIDE = 'receivers needing more than 2 apply steps; selections outside the 6 listed; whether the range end is inclusive (both readings accepted)'
ASSUMPTIONS = ['"normalised" = negative bounds + len clamped at 0 (too-large bounds may stay or be clamped); '
               'a match or a lacking position exactly at the end index may be reported or not (statement does not settle inclusive/exclusive)']
KINDS = 'O: i, start, end (all integers / None); E: n, builder selectors and ranges, selection, reverse, class'


def obligations(tier):
    obs = [selftest_ob()]
    for n in (1, 2, 3):
        obs.append(Ob('at/b1/n%d' % n, h_at, dict(n=n, k=1, s2=0, r2=0), need=('inside', 'outside'), budget=300,
                      bounds='n=%d, 1 apply step' % n, kinds=KINDS))
    obs.append(Ob('at/b2/n2', h_at, dict(n=2, k=2), need=('inside', 'outside', 'two-settings'), budget=600,
                  bounds='n=2, 2 apply steps', kinds=KINDS))
    need = ('found', 'not-found', 'end-found', 'end-none', 'empty-selection', 'end-before-start')
    for n in (1, 2, 3):
        for s1 in (0, 1):
            obs.append(Ob('find/b1/n%d/s%d' % (n, s1), h_find, dict(n=n, k=1, s1=s1, s2=0, r2=0), need=need, budget=600,
                          bounds='n=%d, 1 apply step' % n, kinds=KINDS))
    ns = (2,) if tier == 'quick' else (2, 3)
    for n in ns:
        for s1 in (0, 1):
            for r1 in range(len(ranges(n))):
                obs.append(Ob('find/b2/n%d/s%d/r%d' % (n, s1, r1), h_find, dict(n=n, k=2, s1=s1, r1=r1),
                              need=('found', 'not-found'), budget=600 if tier == 'quick' else 3000,
                              bounds='n=%d, 2 apply steps, first on range #%d' % (n, r1), kinds=KINDS))
    if tier == 'thorough':
        obs.append(Ob('at/b2/n3', h_at, dict(n=3, k=2), need=('inside', 'outside', 'two-settings'), budget=1500,
                      bounds='n=3, 2 apply steps', kinds=KINDS))
    return obs
