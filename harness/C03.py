"""C03 -- render/re-parse round trip and simplify() preserve appearance and are stable."""
from engine.api import Ob, pick, choose, cover, selftest_ob
from ref import term
from ref.view import S, TEXT, ranges

from ansi_string import AnsiString, AnsiStr, AnsiSetting

LEVEL = 'model_checking'

# (spelling, reported texts, kind)
SIG = (
    ('red', ('31',)), ('blue', ('34',)), ('bold', ('1',)), ('no_bold_faint', ('22',)), ('[38;5;9', ('38;5;9',)),
    ('rgb(1,2,3)', ('38;2;1;2;3',)), ('[99', ('99',)), ('[1;31', ('1;31',)), ('[1m', ('1m',)), (None, ('31',)),
    ('ul_rgb(4,5,6)', ('4', '58;2;4;5;6')), ('fg_default', ('39',)), ('bg_color256(7)', ('48;5;7',)), ('[4;', ('4;',)),
    ('[38;5;300', ('38;5;300',)), ('[48;2;1;2;256', ('48;2;1;2;256',)), ('[38;5', ('38;5',)), ('[58;2;1;2', ('58;2;1;2',)),
)


def build(n, k, s1, r1, s2, r2, t2, sig, s3=0, r3=0):
    s = AnsiString(TEXT[:n])
    for (sel, rng, top, on) in ((s1, r1, True, k >= 1), (s2, r2, t2, k >= 2), (s3, r3, True, k >= 3)):
        if not on:
            continue
        st = choose(sel, sig)
        r = choose(rng, ranges(n))
        if st is None or r is None:
            return None
        spelling = st[0] if st[0] is not None else AnsiSetting('31')
        s.apply_formatting(spelling, r[0], r[1], topmost=bool(top))
    return s


def valid_text(t):
    return not any(0x40 <= ord(c) <= 0x7E for c in t)


def h_roundtrip(n: int, k: int, s1: int, r1: int, s2: int, r2: int, t2: bool, nsig: int = len(SIG)):
    s = build(n, k, s1, r1, s2, r2, t2, SIG[:nsig])
    return _roundtrip(s, n)


def h_roundtrip3(n: int, s1: int, r1: int, s2: int, r2: int, s3: int, r3: int):
    """Three apply steps (thorough)."""
    s = build(n, 3, s1, r1, s2, r2, True, SIG, s3, r3)
    return _roundtrip(s, n)


def _roundtrip(s, n):
    if s is None:
        return None
    t = s.base_str
    tab = S(s, n)
    all_valid = all(valid_text(x) for row in tab for x in row)
    if not all_valid:
        cover('has-invalid')
    # effective style of the valid settings
    def settled(x):
        if not term.complete_groups(x):
            return False                # truncated colour selector: swallows whatever is rendered after it
        try:
            term.red([x])
            return True
        except term.Ambiguous:
            return False
    unsettled = any(not settled(x) for row in tab for x in row if valid_text(x))
    if unsettled:
        cover('out-of-range-colour')           # (or a truncated colour selector)
        all_valid = False               # no claim about the display of such a setting; simplify() must still end parsable
    want = [term.red([x for x in row if valid_text(x) and settled(x)]) for row in tab]
    # (i) render / re-parse
    if all_valid:
        r = AnsiString(str(s))
        if r.base_str != t:
            return ('reparse-text', str(s), r.base_str)
        rt = S(r, n)
        for i in range(n):
            if term.red(rt[i]) != want[i]:
                return ('reparse-style', i, str(s), tab[i], rt[i])
        cover('reparsed')
    # (ii) simplify
    c = s.copy()
    c.simplify()
    if c.base_str != t:
        return ('simplify-text', c.base_str)
    ct = S(c, n)
    for i in range(n):
        for x in ct[i]:
            if not valid_text(x):
                return ('simplify-keeps-invalid', i, ct[i])
        try:
            got = term.red(ct[i])
        except term.Ambiguous:
            got = None
        if got != want[i] and not unsettled:
            return ('simplify-style', i, tab[i], ct[i])
    if not c.is_formatting_parsable() or not c.is_formatting_valid():
        return ('simplify-not-parsable', ct)
    first = str(c)
    c.simplify()
    if str(c) != first or S(c, n) != ct:
        return ('simplify-not-idempotent', first, str(c))
    if str(AnsiString(first)) != first:
        return ('simplified-not-fixed-point', first, str(AnsiString(first)))
    # source untouched
    if S(s, n) != tab:
        return ('source-changed',)
    # AnsiStr.simplify returns a new value with the same outcome
    a = AnsiStr(s).simplify()
    if not isinstance(a, AnsiStr) or str(a) != first:
        return ('ansistr-simplify-differs', str(a), first)
    if any(len(x) >= 2 for x in tab):
        cover('stacked')
    cover('simplified')
    return True


REPS = (1, 22, 31, 39, '[38;5;9', 4, 53, 51, 11, 26, 7, '[58;5;1', 0)


def h_sweep(f: int, y: int, shape: int):
    """Free SGR code (0..256) next to / below / above a representative code, through render/re-parse and simplify()."""
    v = pick(f, 0, 256)
    if v is None:
        return None
    if v in (38, 48, 58):
        return None                         # a bare introducer is not a well-formed group
    r = choose(y, REPS)
    if r is None:
        return None
    sh = pick(shape, 0, 3)
    if sh is None:
        return None
    s = AnsiString('abc')
    if sh == 0:
        s.apply_formatting(v, 0, 1)
        s.apply_formatting(r, 1, 2)
    elif sh == 1:
        s.apply_formatting(r, 0, 2)
        s.apply_formatting(v, 1, 3)
    elif sh == 2:
        s.apply_formatting(v, 0, 3)
        s.apply_formatting(r, 1, 2)
    else:
        s.apply_formatting(r, 0, 3)
        s.apply_formatting(v, 1, 2)
    tab = S(s, 3)
    want = [term.red(x) for x in tab]
    back = AnsiString(str(s))
    if back.base_str != 'abc':
        return ('reparse-text', str(s))
    bt = S(back, 3)
    for i in range(3):
        if term.red(bt[i]) != want[i]:
            return ('reparse-style', i, str(s), tab[i], bt[i], v, r)
    c = s.copy()
    c.simplify()
    ct = S(c, 3)
    for i in range(3):
        if term.red(ct[i]) != want[i]:
            return ('simplify-style', i, str(s), tab[i], ct[i], v, r)
    first = str(c)
    c.simplify()
    if str(c) != first:
        return ('simplify-not-idempotent', first, str(c))
    if str(AnsiString(first)) != first:
        return ('simplified-not-fixed-point', first)
    if v not in term.KNOWN:
        cover('unknown-code')
    cover('swept')
    return True


BOUNDS = {
    'quick': 'values from <=2 apply steps at n=2 over a 14-setting alphabet (named, clear codes, 256/24-bit colours, ul_rgb pair, unknown verbatim 99, '
             'multi-group verbatim 1;31, invalid verbatim 1m, trailing-separator verbatim, AnsiSetting object), all canonical ranges, topmost both; 1 step at n=3; free SGR code 0..256 against 13 representative codes in 4 span shapes',
    'thorough': '2 apply steps at n=3; 3 apply steps at n=2',
}
OUTSIDE = 'base texts containing ESC; values needing more builder steps; settings outside the alphabet'
ASSUMPTIONS = ['effective style of a value with invalid settings = effective style of its valid settings (invalid ones cannot be rendered well-formed)']
KINDS = 'E: builder selectors, ranges, topmost'


def obligations(tier):
    obs = [selftest_ob()]
    obs.append(Ob('roundtrip/b1/n3', h_roundtrip, dict(n=3, k=1, s2=0, r2=0, t2=False), need=('reparsed', 'simplified', 'has-invalid'),
                  budget=600, bounds='n=3, 1 apply step', kinds=KINDS))
    for y in range(len(REPS)):
        obs.append(Ob('sweep/rep%d' % y, h_sweep, dict(y=y), need=('swept', 'unknown-code'), budget=900,
                      bounds='free code 0..256 x representative %r x 4 span shapes' % (REPS[y],), kinds=KINDS))
    n2 = 2 if tier == 'quick' else 3
    for s1 in range(len(SIG)):
        if tier == 'quick':
            obs.append(Ob('roundtrip/b2/n2/s%d' % s1, h_roundtrip, dict(n=2, k=2, s1=s1), need=('simplified', 'stacked'), budget=900,
                          bounds='n=2, 2 apply steps, first setting %r' % (SIG[s1][0],), kinds=KINDS))
        else:
            for r1 in range(len(ranges(3))):
                obs.append(Ob('roundtrip/b2/n3/s%d/r%d' % (s1, r1), h_roundtrip, dict(n=3, k=2, s1=s1, r1=r1), need=('simplified',), budget=3000,
                              bounds='n=3, 2 apply steps', kinds=KINDS))
            for r1 in range(len(ranges(2))):
                obs.append(Ob('roundtrip/b3/n2/s%d/r%d' % (s1, r1), h_roundtrip3, dict(n=2, s1=s1, r1=r1), need=('simplified',), budget=3000,
                              bounds='n=2, 3 apply steps over the 14-setting alphabet', kinds=KINDS))
    return obs
