"""C11 -- substring and editing methods keep the style of every surviving character."""
from typing import Optional

from engine.api import Ob, pick, choose, cover, selftest_ob
from ref import term
from ref.view import S, ranges, SIGMA

from ansi_string import AnsiString, AnsiStr

LEVEL = 'model_checking'
ESC = '\x1b'
WS = ' \t\n\r\v\f'
# every code point str.split(None) treats as whitespace (membership forks symbolically; str.isspace() would realise the character)
WSALL = ''.join(chr(i) for i in range(0x3001) if chr(i).isspace())
SIG = (SIGMA[0], SIGMA[2], SIGMA[1])        # red, bold, blue


def styled(t, n, k, s1, r1, s2, r2):
    """AnsiString(t) with k apply steps on canonical ranges (non-uniform formatting)."""
    s = AnsiString(t)
    for sel, rng, on in ((s1, r1, k >= 1), (s2, r2, k >= 2)):
        if not on:
            continue
        st = choose(sel, SIG)
        r = choose(rng, ranges(n))
        if st is None or r is None:
            return None
        s.apply_formatting(st[0], r[0], r[1])
    return s


def check_piece(piece, text, tab, off, what):
    """piece must be text with the settings of the original at offset off."""
    if piece.base_str != text:
        return (what + '-text', piece.base_str, text)
    got = S(piece, len(text))
    for j in range(len(text)):
        if not term.same(got[j], tab[off + j]):
            return (what + '-style', off, j, got[j], tab[off + j])
    if len(text) >= 2 and tab[off] != tab[off + len(text) - 1]:
        cover('change-point-inside-piece')
    return None


def nonuniform(tab):
    return any(tab[i] != tab[0] for i in range(len(tab)))


def h_split(t: str, sep: Optional[str], k: int, n: int, kk: int, s1: int, r1: int, s2: int, r2: int, m: int):
    if len(t) != n or ESC in t:
        return None
    if sep is not None and (sep == '' or len(sep) > 2):
        return None
    k = pick(k, -2, n + 1)               # CrossHair realises maxsplit: enumerated, not abstracted
    if k is None:
        return None
    s = styled(t, n, kk, s1, r1, s2, r2)
    if s is None:
        return None
    tab = S(s, n)
    right = bool(m)
    pieces = s.rsplit(sep, k) if right else s.split(sep, k)
    exp = t.rsplit(sep, k) if right else t.split(sep, k)
    if len(pieces) != len(exp):
        return ('split-count', t, sep, k, [p.base_str for p in pieces], exp)
    # true offsets from the str result
    offs = []
    if sep is not None:
        pos = 0
        for e in exp:
            offs.append(pos)
            pos += len(e) + len(sep)
    elif not right:
        pos = 0
        for e in exp:
            while pos < n and t[pos] in WSALL:
                pos += 1
            offs.append(pos)
            pos += len(e)
    else:
        pos = n
        for e in reversed(exp):
            while pos > 0 and t[pos - 1] in WSALL:
                pos -= 1
            pos -= len(e)
            offs.insert(0, pos)
    for p, e, o in zip(pieces, exp, offs):
        if t[o:o + len(e)] != e:
            return None                         # offset reconstruction failed (should not happen)
        bad = check_piece(p, e, tab, o, 'split')
        if bad:
            return bad + (t, sep, k)
    if len(exp) > 1:
        cover('split-happened')
        if len(set(exp)) < len(exp) or any(e and e in x for e in exp for x in exp if x is not e and len(x) > len(e)):
            cover('piece-text-repeats')
    if nonuniform(tab):
        cover('nonuniform')
    return True


def h_splitlines(n: int, p1: int, p2: int, p3: int, p4: int, keep: bool, k: int, s1: int, r1: int, s2: int, r2: int):
    pal = ('\n', '\r', 'x', 'y')
    t = ''
    for p in (p1, p2, p3, p4)[:n]:
        c = choose(p, pal)
        if c is None:
            return None
        t += c
    s = styled(t, n, k, s1, r1, s2, r2)
    if s is None:
        return None
    tab = S(s, n)
    pieces = s.splitlines(bool(keep))
    full = t.splitlines(True)
    exp = t.splitlines(bool(keep))
    if len(pieces) != len(exp):
        return ('splitlines-count', t, [p.base_str for p in pieces], exp)
    pos = 0
    for p, e, f in zip(pieces, exp, full):
        bad = check_piece(p, e, tab, pos, 'splitlines')
        if bad:
            return bad + (t, keep)
        pos += len(f)
    if len(exp) > 1:
        cover('lines')
        if len(set(exp)) < len(exp):
            cover('piece-text-repeats')
    return True


def h_partition(t: str, sep: str, n: int, k: int, s1: int, r1: int, s2: int, r2: int, m: int):
    if len(t) != n or ESC in t or sep == '' or len(sep) > 2:
        return None
    s = styled(t, n, k, s1, r1, s2, r2)
    if s is None:
        return None
    tab = S(s, n)
    res = s.rpartition(sep) if m else s.partition(sep)
    if len(res) != 3:
        return ('partition-arity', len(res))
    if sep in t:
        e = t.rpartition(sep) if m else t.partition(sep)
        cover('partitioned')
    else:
        e = (t, '', '')
        cover('absent')
    offs = (0, len(e[0]), len(e[0]) + len(e[1]))
    for p, x, o in zip(res, e, offs):
        bad = check_piece(p, x, tab, o, 'partition')
        if bad:
            return bad + (t, sep)
    return True


def h_strip(t: str, chars: Optional[str], n: int, k: int, s1: int, r1: int, s2: int, r2: int, m: int):
    if len(t) != n or ESC in t or (chars is not None and len(chars) > 2):
        return None
    s = styled(t, n, k, s1, r1, s2, r2)
    name = choose(m, ('strip', 'lstrip', 'rstrip', 'removeprefix', 'removesuffix'))
    if s is None or name is None:
        return None
    tab = S(s, n)
    if name in ('removeprefix', 'removesuffix'):
        if chars is None:
            return None
        e = getattr(t, name)(chars)
        off = len(chars) if (name == 'removeprefix' and t.startswith(chars)) else 0
        res = getattr(s, name)(chars)
    else:
        cs = WS if chars is None else chars
        e = getattr(t, name)(cs)
        off = 0 if name == 'rstrip' else n - len(t.lstrip(cs))
        if e == '':
            off = 0
        res = getattr(s, name)(chars)
    bad = check_piece(res, e, tab, off, name)
    if bad:
        return bad + (t, chars)
    if e != t:
        cover('shortened')
    # closure: nothing stays open past the piece
    z = res + 'z'
    if [str(x) for x in z.ansi_settings_at(len(e))] != []:
        return ('piece-not-closed', name, t, chars)
    return True


def h_replace_same_len(n: int, k: int, s1: int, r1: int, s2: int, r2: int, cnt: int):
    """Plain-str replacement as long as the (whole-text) match: every character takes the first character's settings."""
    t = 'abcd'[:n]
    s = styled(t, n, k, s1, r1, s2, r2)
    if s is None:
        return None
    c = pick(cnt, -1, 2)
    if c is None:
        return None
    tab = S(s, n)
    res = s.replace(t, 'WXYZ'[:n], c)
    if c == 0:
        exp_text, exp = t, tab
    else:
        exp_text, exp = 'WXYZ'[:n], [tab[0]] * n
    if res.base_str != exp_text:
        return ('replace-text', res.base_str, exp_text)
    got = S(res, n)
    for i in range(n):
        if not term.same(got[i], exp[i]):
            return ('replace-style', t, i, got[i], exp[i], 'same-length')
    if nonuniform(tab):
        cover('nonuniform')
    return True


HIST_TEXTS = ('-bcde', 'a-b-c')


def h_replace_hist(ti: int, r1: int, r2: int, form: int):
    """Receivers with a hole: a setting applied on a range and removed again on an inner range (stopped and re-started),
    then replace('-', ...) with a plain str / an AnsiString that itself has such a hole."""
    t = choose(ti, HIST_TEXTS)
    if t is None:
        return None
    n = len(t)
    ra = choose(r1, ranges(n))
    if ra is None:
        return None
    rb = choose(r2, ranges(n))
    if rb is None:
        return None
    f = pick(form, 0, 2)
    if f is None:
        return None
    s = AnsiString(t)
    s.apply_formatting('bold', ra[0], ra[1])
    s.remove_formatting('bold', rb[0], rb[1])
    tab = S(s, n)
    if f == 0:
        new, new_text, new_tab = 'y', 'y', None
    elif f == 1:
        new = AnsiString('XYZ', 'bold')
        new.remove_formatting('bold', 1, 2)
        new_text, new_tab = 'XYZ', [['1'], [], ['1']]
    else:
        new = AnsiStr('XYZ', 'bold').remove_formatting('bold', 1, 2)
        new_text, new_tab = 'XYZ', [['1'], [], ['1']]
    res = s.replace('-', new)
    exp_text = t.replace('-', new_text)
    if res.base_str != exp_text:
        return ('replace-text', res.base_str, exp_text)
    exp_tab = []
    for i, ch in enumerate(t):
        if ch == '-':
            for j in range(len(new_text)):
                exp_tab.append(tab[i] if new_tab is None else new_tab[j])
        else:
            exp_tab.append(tab[i])
    got = S(res, len(exp_text))
    for i in range(len(exp_text)):
        if not term.same(got[i], exp_tab[i]):
            return ('replace-style', t, i, got[i], exp_tab[i], 'history', f)
    if any(tab[i] and not tab[i + 1] and any(tab[i + 2:]) for i in range(n - 2)):
        cover('hole')
    cover('replaced')
    return True


def h_case(n: int, p1: int, p2: int, p3: int, k: int, s1: int, r1: int, s2: int, r2: int, m: int):
    pal = ('a', 'Z', ' ', '1', 'é', 'ǅ')
    t = ''
    for p in (p1, p2, p3)[:n]:
        c = choose(p, pal)
        if c is None:
            return None
        t += c
    s = styled(t, n, k, s1, r1, s2, r2)
    name = choose(m, ('capitalize', 'casefold', 'lower', 'upper', 'swapcase', 'title'))
    if s is None or name is None:
        return None
    e = getattr(t, name)()
    if len(e) != n:
        return None
    tab = S(s, n)
    res = getattr(s, name)()
    if res.base_str != e or S(res, n) != tab:
        return ('case-style', name, t, S(res, n), tab)
    cover('case')
    return True


def h_assign(n: int, m: int, k: int, s1: int, r1: int, s2: int, r2: int):
    """assign_str: common prefix keeps settings, added characters take the last character's, removed ones vanish."""
    s = styled('abcd'[:n], n, k, s1, r1, s2, r2)
    mm = pick(m, 0, n + 2)
    if s is None or mm is None:
        return None
    tab = S(s, n)
    u = 'UVWXYZ'[:mm]
    s.assign_str(u)
    if s.base_str != u:
        return ('assign-text', s.base_str)
    got = S(s, mm)
    for i in range(mm):
        exp = tab[i] if i < n else (tab[n - 1] if n else [])
        if not term.same(got[i], exp):
            return ('assign-style', n, mm, i, got[i], exp)
    z = s + 'z'
    if [str(x) for x in z.ansi_settings_at(mm)] != []:
        return ('assign-not-closed', n, mm, S(z))
    cells, _, _ = term.interpret(str(z))
    if cells[mm][1] != {}:
        return ('assign-render-open', str(z))
    cover('longer' if mm > n else 'shorter' if mm < n else 'same-length')
    return True


def h_replace(t: str, old: str, n: int, cnt: int, k: int, s1: int, r1: int, s2: int, r2: int, form: int):
    """form 0: plain str replacement 'XY'; 1: AnsiString 'XY' with red on X; 2: AnsiStr('XY', 'red', 'blue', '[99'); 3: empty str; 4: expandtabs-like 1 char."""
    if len(t) != n or ESC in t or old == '' or len(old) > 2:
        return None
    s = styled(t, n, k, s1, r1, s2, r2)
    f = pick(form, 0, 4)
    if s is None or f is None:
        return None
    tab = S(s, n)
    new_text = ('XY', 'XY', 'XY', '', 'Q')[f]
    if f == 1:
        new = AnsiString('XY')
        new.apply_formatting('red', 0, 1)       # red is also in the receivers' alphabet: equal settings at the seam
        new_tab = [['31'], []]
    elif f == 2:
        new = AnsiStr('XY', 'red', 'blue', '[99')      # stacked conflicting + unknown verbatim: must survive as they are
        new_tab = [['31', '34', '99'], ['31', '34', '99']]
    else:
        new = new_text
        new_tab = None
    new_before = (new.base_str, S(new)) if f in (1, 2) else None
    res = s.replace(old, new, cnt)
    # expected text and table, str semantics
    exp_text = t.replace(old, new_text, cnt)
    if res.base_str != exp_text:
        return ('replace-text', t, old, cnt, res.base_str, exp_text)
    exp_tab = []
    i = 0
    done = 0
    while i < n:
        if (cnt < 0 or done < cnt) and t[i:i + len(old)] == old:
            for j in range(len(new_text)):
                exp_tab.append(tab[i] if new_tab is None else new_tab[j])
            i += len(old)
            done += 1
        else:
            exp_tab.append(tab[i])
            i += 1
    got = S(res, len(exp_text))
    for i in range(len(exp_text)):
        if not term.same(got[i], exp_tab[i]):
            return ('replace-style', t, old, cnt, i, got[i], exp_tab[i], f)
    if done >= 2:
        cover('two-matches')
    if done:
        cover('replaced')
    if new_before is not None and (new.base_str, S(new)) != new_before:
        return ('replacement-mutated', f)
    if S(s, n) != tab:
        return ('receiver-mutated',)
    return True


BOUNDS = {
    'quick': 'base text: any string (all Unicode, no ESC) of length <=3 styled by <=2 apply steps over (red, bold, blue) on canonical ranges; '
             'separators/patterns any strings of length 1..2 (or None); count ALL integers, maxsplit -2..n+1; splitlines over {LF, CR, x, y}^<=4; '
             'case methods over a 6-char palette; assign_str to lengths 0..n+2; replace with 5 replacement forms',
    'thorough': 'quick + split with 2 apply steps at n=3, and texts of length 4 for split (1 step), partition, strips, replace (plain / AnsiString replacement)',
}
OUTSIDE = 'longer texts; empty separators / empty old (C10 judges the text only); case mappings that change the length'
ASSUMPTIONS = ['offsets of the pieces are derived from the str result (cumulative lengths), not from the implementation']
KINDS = 'C: base text, separator, strip set (any Unicode, bounded); O: maxsplit, count; E: builder selectors and ranges, method selector, palette indices'


def obligations(tier):
    q = tier == 'quick'
    obs = [selftest_ob()]
    z1 = dict(s2=0, r2=0)
    ns = (1, 2, 3)
    for m in (0, 1):
        for n in ns:
            need = ('split-happened', 'nonuniform') if n >= 2 else ()
            if n <= 2:
                obs.append(Ob('split/m%d/n%d/k1' % (m, n), h_split, dict(n=n, kk=1, m=m, **z1), need=need, budget=1500, per_path=40,
                              bounds='text length %d, 1 apply step' % n, kinds=KINDS))
            else:
                for r1 in range(len(ranges(n))):
                    obs.append(Ob('split/m%d/n%d/k1/r%d' % (m, n, r1), h_split, dict(n=n, kk=1, m=m, r1=r1, **z1), need=('split-happened',),
                                  budget=1500 if q else 4000, per_path=40, bounds='text length %d, 1 apply step on range #%d' % (n, r1), kinds=KINDS))
            if n == 2 or (n == 3 and not q and m == 0):
                for s1 in range(3):
                    for r1 in range(len(ranges(n))):
                        obs.append(Ob('split/m%d/n%d/k2/s%d/r%d' % (m, n, s1, r1), h_split, dict(n=n, kk=2, m=m, s1=s1, r1=r1), need=('split-happened',),
                                      budget=1500 if q else 4000, per_path=40, bounds='text length %d, 2 apply steps' % n, kinds=KINDS))
    for n in (2, 3) if q else (2, 3, 4):
        f = dict(n=n, k=1, **z1)
        for j, nm in enumerate(('p1', 'p2', 'p3', 'p4')):
            if j >= n:
                f[nm] = 0
        obs.append(Ob('splitlines/n%d' % n, h_splitlines, f, need=('lines',) + (('piece-text-repeats',) if n >= 3 else ()), budget=900,
                      bounds='%d chars over LF/CR/x/y, 1 apply step' % n, kinds=KINDS))
    for m in (0, 1):
        for n in ns:
            obs.append(Ob('partition/m%d/n%d' % (m, n), h_partition, dict(n=n, k=1, m=m, **z1), need=('partitioned', 'absent') if n > 1 else (),
                          budget=900, bounds='text length %d' % n, kinds=KINDS))
    for m in range(5):
        for n in ns:
            obs.append(Ob('strip/m%d/n%d' % (m, n), h_strip, dict(n=n, k=1, m=m, **z1), need=('shortened',), budget=900,
                          bounds='text length %d' % n, kinds=KINDS))
    for n in (1, 2) if q else (1, 2, 3):
        f = dict(n=n, k=1, **z1)
        for j, nm in enumerate(('p1', 'p2', 'p3')):
            if j >= n:
                f[nm] = 0
        if n == 3:
            for p1 in range(6):
                obs.append(Ob('case/n3/p%d' % p1, h_case, dict(f, p1=p1), need=('case',), budget=1500, bounds='3 palette chars', kinds=KINDS))
        else:
            obs.append(Ob('case/n%d' % n, h_case, f, need=('case',), budget=900, bounds='%d palette chars' % n, kinds=KINDS))
    for n in (0, 1, 2, 3):
        obs.append(Ob('assign/n%d' % n, h_assign, dict(n=n, k=2 if n else 0, **({} if n else dict(s1=0, r1=0, **z1))),
                      need=('longer',) + (('shorter',) if n else ()), budget=600,
                      bounds='n=%d -> 0..n+2, 2 apply steps' % n, kinds=KINDS))
    for ti in range(len(HIST_TEXTS)):
        obs.append(Ob('replace/history/t%d' % ti, h_replace_hist, dict(ti=ti), need=('replaced', 'hole'), budget=900,
                      bounds='text %r: bold on any range, removed again on any range (hole), replace of "-" by plain / AnsiString / AnsiStr replacement with a hole' % HIST_TEXTS[ti], kinds=KINDS))
    for n in (2, 3, 4):
        obs.append(Ob('replace/same-length/n%d' % n, h_replace_same_len, dict(n=n, k=2), need=('nonuniform',), budget=600,
                      bounds='whole-text match of length %d replaced by a plain str of the same length, 2 apply steps' % n, kinds=KINDS))
    for r1 in range(6):
        obs.append(Ob('replace/n3/dup/r%d' % r1, h_replace, dict(n=3, k=2, form=0, s1=0, s2=0, r1=r1), need=('replaced',), budget=1500, per_path=40,
                      bounds='text length 3, the same setting applied twice (nested / overlapping ranges), plain replacement', kinds=KINDS))
    for n in ns:
        for form in range(5):
            obs.append(Ob('replace/n%d/f%d' % (n, form), h_replace, dict(n=n, k=1, form=form, **z1),
                          need=('replaced',) + (('two-matches',) if n >= 2 else ()), budget=1500, per_path=40,
                          bounds='text length %d, old 1..2 chars, count all integers' % n, kinds=KINDS))
    if not q:
        # length 4: selected families
        for r1 in range(len(ranges(4))):
            obs.append(Ob('split/m0/n4/k1/r%d' % r1, h_split, dict(n=4, kk=1, m=0, r1=r1, **z1), need=('split-happened',), budget=2400, per_path=40,
                          bounds='text length 4, 1 apply step on range #%d' % r1, kinds=KINDS))
        for m in (0, 1):
            obs.append(Ob('partition/m%d/n4' % m, h_partition, dict(n=4, k=1, m=m, **z1), need=('partitioned', 'absent'), budget=2400, bounds='text length 4', kinds=KINDS))
        for m in range(5):
            obs.append(Ob('strip/m%d/n4' % m, h_strip, dict(n=4, k=1, m=m, **z1), need=('shortened',), budget=2400, bounds='text length 4', kinds=KINDS))
        for form in (0, 1):
            for r1 in range(len(ranges(4))):
                obs.append(Ob('replace/n4/f%d/r%d' % (form, r1), h_replace, dict(n=4, k=1, form=form, r1=r1, **z1), need=('replaced',), budget=2400, per_path=40,
                              bounds='text length 4, old 1..2 chars, count all integers', kinds=KINDS))
    return obs
