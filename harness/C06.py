"""C06 -- apply_formatting changes exactly the range, with the documented precedence."""
from typing import Optional

from engine.api import Ob, pick, choose, cover
from ref import term
from ref.view import S, V, TEXT, SIGMA, SIGMA4, b1_step, norm_slice, ranges

from ansi_string import AnsiString, AnsiFormat

# the same alphabet given as enum member / nested list / tuple / doubly nested list
SIGMA_SP = ((AnsiFormat.FG_RED, '31'), (['blue'], '34'), (('bold',), '1'), ([['no_bold_faint']], '22'))

LEVEL = 'model_checking'


def _sub_minus_one(after, before, x):
    """after == before with one occurrence of x inserted somewhere."""
    if len(after) != len(before) + 1:
        return False
    for k in range(len(after)):
        if after[k] == x and after[:k] + after[k + 1:] == before:
            return True
    return False


def check_apply(s, n, before, vbefore, sigma_text, lo, hi, top):
    """Oracle for one apply_formatting(sigma, lo..hi) on a value whose
    per-character table was `before`."""
    after = S(s, n)
    g_new = term.group_of(sigma_text)
    red_new = term.red([sigma_text])
    stopped = False
    for i in range(n):
        a, b = after[i], before[i]
        if i < lo or i >= hi:
            if not term.same(a, b):
                return ('outside-changed', i, b, a)
            continue
        # inside: gains exactly sigma
        if sorted(a) != sorted(b + [sigma_text]):
            return ('inside-multiset', i, b, a)
        # per group relative order of the old settings is kept
        ga = [t for t in a if term.group_of(t) == g_new]
        gb = [t for t in b if term.group_of(t) == g_new]
        if not _sub_minus_one(ga, gb, sigma_text):
            return ('inside-order', i, b, a)
        for g in set(term.group_of(t) for t in b):
            if g == g_new:
                continue
            if [t for t in a if term.group_of(t) == g] != [t for t in b if term.group_of(t) == g]:
                return ('inside-order-other', i, b, a)
        ra, rb = term.red(a), term.red(b)
        if not top:
            touched = set(term.group_of(t) for t in b)
            for g in term.GROUPS:
                if g in touched:
                    if ra.get(g) != rb.get(g):
                        return ('not-topmost-shadowed', i, b, a)
                elif ra.get(g) != red_new.get(g):
                    return ('not-topmost-missing', i, b, a)
            cover('nontop-inside')
            if g_new in touched:
                cover('nontop-conflict')
        else:
            if i > lo and not stopped:
                # does another setting begin here (object not active on i-1)?
                prev = vbefore[i - 1]
                for x in vbefore[i]:
                    if not any(x is y for y in prev):
                        stopped = True
            if not stopped:
                if ra.get(g_new) != red_new.get(g_new):
                    return ('topmost-not-on-top', i, b, a)
                cover('top-inside')
                if gb:
                    cover('top-conflict')
    return None


def _core(s, n, sigma, op_sigma, so, c, d, top):
    st = choose(so, [sigma[j] for j in op_sigma] if op_sigma else sigma)
    if st is None:
        return None
    before = S(s, n)
    vbefore = V(s, n)
    text_before = s.base_str
    str_before = str(s)
    lo, hi = norm_slice(c, d, n)
    s.apply_formatting(st[0], c, d, topmost=bool(top)) if c is not None else \
        s.apply_formatting(st[0], end=d, topmost=bool(top))
    if s.base_str != text_before:
        return ('text-changed', s.base_str)
    if lo >= hi:
        cover('empty-range')
        if S(s, n) != before or str(s) != str_before:
            return ('empty-range-not-noop', before, S(s, n))
        return True
    cover('nonempty')
    if c is not None and c < 0:
        cover('negative-start')
    if d is not None and d > n:
        cover('end-beyond')
    bad = check_apply(s, n, before, vbefore, st[1], lo, hi, bool(top))
    if bad:
        return bad
    if d is None or d >= n:
        # nothing stays open past the end of the text
        z = s + 'z'
        if [str(x) for x in z.ansi_settings_at(n)] != []:
            return ('style-open-past-the-text', c, d, S(z))
    return True


def h_apply(n: int, k: int, s1: int, r1: int, s2: int, r2: int, t2: bool,
            so: int, c: Optional[int], d: Optional[int], top: bool, sigma_n: int = 4, op_sigma=None, spelled=False):
    sigma = SIGMA_SP if spelled else SIGMA[:sigma_n]
    s = AnsiString(TEXT[:n])
    if k >= 1:
        if b1_step(s, n, s1, r1, True, sigma) is None:
            return None
    if k >= 2:
        if b1_step(s, n, s2, r2, t2, sigma) is None:
            return None
    return _core(s, n, sigma, op_sigma, so, c, d, top)


def h_apply3(n: int, s1: int, r1: int, s2: int, r2: int, s3: int, r3: int, so: int, rr: int, top: bool,
             sig=(0, 1, 2), op_sigma=(4,)):
    """Three builder steps (two settings carried over + one starting at the range start is the smallest such receiver)."""
    sigma = SIGMA[:5]
    sub = [sigma[j] for j in sig]
    s = AnsiString(TEXT[:n])
    if b1_step(s, n, s1, r1, True, sub) is None:
        return None
    if b1_step(s, n, s2, r2, True, sub) is None:
        return None
    if b1_step(s, n, s3, r3, True, sub) is None:
        return None
    rg = choose(rr, ranges(n))          # canonical range (the all-integer bounds are covered on 1- and 2-step receivers)
    if rg is None:
        return None
    return _core(s, n, sigma, op_sigma, so, rg[0], rg[1], top)


def h_empty_settings(n: int, s1: int, r1: int, which: int, c: int, d: int, top: bool):
    """An empty settings list / empty string / ';' is a no-op."""
    s = AnsiString(TEXT[:n])
    if b1_step(s, n, s1, r1, True) is None:
        return None
    e = choose(which, ([], (), '', ';', ';;', [[]], ['', []]))
    if e is None:
        return None
    before = S(s, n)
    sb = str(s)
    s.apply_formatting(e, c, d, topmost=bool(top))
    if S(s, n) != before or str(s) != sb or s.base_str != TEXT[:n]:
        return ('empty-settings-not-noop', e, before, S(s, n))
    cover('empty-settings')
    return True


MULTI = ((['underline', 'italic'], ['4', '3']), (['bold', 'red'], ['1', '31']), (('blue', ['faint']), ['34', '2']))


def h_multi(n: int, s1: int, r1: int, c: int, d: int, top: bool, which: int):
    """A list of two settings: both are gained, in order, with the documented precedence against what is there."""
    s = AnsiString(TEXT[:n])
    if b1_step(s, n, s1, r1, True) is None:
        return None
    mw = choose(which, MULTI)
    if mw is None:
        return None
    arg, texts = mw
    before = S(s, n)
    lo, hi = norm_slice(c, d, n)
    s.apply_formatting(arg, c, d, topmost=bool(top))
    after = S(s, n)
    red_new = term.red(texts)
    for i in range(n):
        exp = before[i] + texts if lo <= i < hi else before[i]
        if sorted(after[i]) != sorted(exp):
            return ('multi-multiset', i, exp, after[i])
        if not (lo <= i < hi):
            if not term.same(after[i], before[i]):
                return ('multi-outside', i, before[i], after[i])
            continue
        # the two new settings keep their order among themselves
        if [t for t in after[i] if t in texts and t not in before[i]] not in (texts, [t for t in texts if t not in before[i]]):
            return ('multi-order', i, after[i])
        ra, rb = term.red(after[i]), term.red(before[i])
        touched = set(term.group_of(t) for t in before[i])
        if not top:
            for g in term.GROUPS:
                if g in touched:
                    if ra.get(g) != rb.get(g):
                        return ('multi-not-topmost-shadowed', i, before[i], after[i])
                elif ra.get(g) != red_new.get(g):
                    return ('multi-not-topmost-missing', i, before[i], after[i])
            if touched & set(red_new):
                cover('multi-conflict')
        elif i == lo:
            for g, v in red_new.items():
                if ra.get(g) != v:
                    return ('multi-topmost-not-on-top', i, before[i], after[i])
    if lo < hi:
        cover('nonempty')
    return True


BOUNDS = {
    'quick': 'text length n<=3 (1 builder step) / n=2 (2 builder steps) / n=3 (3 builder steps, first on the whole text, new setting underline); two-setting lists on 1-step receivers; builder settings from a 4-setting alphabet '
             '(red, blue, bold, no_bold_faint) on all canonical ranges; start/end: ALL integers and None; topmost both',
    'thorough': 'n<=3 (1 step, 8-setting alphabet), n=3 (2 steps over red/blue/bold, second topmost), n=3 (3 steps, new setting red/underline on canonical ranges); start/end ALL integers and None',
}
OUTSIDE = 'receivers needing more than 2 builder steps; settings outside the alphabet; texts longer than the bound'
ASSUMPTIONS = ['text content is irrelevant to apply_formatting (concrete letters are used)']

KINDS = 'O: start, end (all integers / None); E: n, builder selectors/ranges/topmost, setting selector, topmost'


def obligations(tier):
    obs = []
    if tier == 'quick':
        # op alphabet {red, bold}: against the builder alphabet this gives equal value, same group other
        # value, clear code of the same group, and unrelated group
        for n in (1, 2, 3):
            obs.append(Ob('apply/b1/n%d' % n, h_apply, dict(n=n, k=1, s2=0, r2=0, t2=False, op_sigma=(0, 2)),
                          need=('nonempty', 'empty-range', 'top-inside', 'nontop-inside', 'negative-start', 'end-beyond'),
                          budget=400, bounds='n=%d, 1 builder step' % n, kinds=KINDS))
        for s1 in (0, 2, 3):
            for r1 in range(3):
                obs.append(Ob('apply/b2/n2/s%d/r%d' % (s1, r1), h_apply,
                              dict(n=2, k=2, s1=s1, r1=r1, op_sigma=(0, 2)),
                              need=('nonempty',),
                              budget=400, bounds='n=2, 2 builder steps, first setting #%d on range #%d' % (s1, r1),
                              kinds=KINDS))
        for s1 in range(3):
            obs.append(Ob('apply/b3/n3/s%d' % s1, h_apply3, dict(n=3, s1=s1, r1=2), need=('nonempty',), budget=900,
                          bounds='n=3, 3 builder steps over (red, blue, bold), first on the whole text; new setting underline on every canonical range', kinds=KINDS))
        for r1 in range(3):
            obs.append(Ob('apply/b2sp/n2/r%d' % r1, h_apply, dict(n=2, k=2, s1=0, r1=r1, op_sigma=(0,), spelled=True), need=('nonempty',), budget=900,
                          bounds='n=2, 2 builder steps, settings spelled as enum member / nested list / tuple; new setting = the same enum member again', kinds=KINDS))
        obs.append(Ob('empty-settings/n2', h_empty_settings, dict(n=2), need=('empty-settings',), budget=200,
                      bounds='n=2', kinds=KINDS))
        obs.append(Ob('multi/n2', h_multi, dict(n=2), need=('nonempty', 'multi-conflict'), budget=600, bounds='n=2, 3 two-setting lists', kinds=KINDS))
        obs.append(Ob('multi/n3', h_multi, dict(n=3), need=('nonempty', 'multi-conflict'), budget=900, bounds='n=3, 3 two-setting lists', kinds=KINDS))
    else:
        for n in (1, 2, 3):
            for s1 in range(8):
                obs.append(Ob('apply/b1x8/n%d/s%d' % (n, s1), h_apply,
                              dict(n=n, k=1, s1=s1, s2=0, r2=0, t2=False, sigma_n=8),
                              need=('nonempty', 'empty-range'), budget=1500,
                              bounds='n=%d, 1 builder step, 8-setting alphabet' % n, kinds=KINDS))
        for s1 in range(3):
            for r1 in range(len(ranges(3))):
                obs.append(Ob('apply/b2/n3/s%d/r%d' % (s1, r1), h_apply, dict(n=3, k=2, s1=s1, r1=r1, t2=True, sigma_n=3, op_sigma=(0, 2)),
                              need=('nonempty',), budget=2400,
                              bounds='n=3, 2 builder steps, first setting #%d on range #%d' % (s1, r1), kinds=KINDS))
        for s1 in range(3):
            for r1 in range(6):
                obs.append(Ob('apply/b3/n3/s%d/r%d' % (s1, r1), h_apply3, dict(n=3, s1=s1, r1=r1, op_sigma=(0, 4)), need=('nonempty',), budget=3000,
                              bounds='n=3, 3 builder steps over (red, blue, bold); new setting red / underline', kinds=KINDS))
        for n in (2, 3):
            obs.append(Ob('empty-settings/n%d' % n, h_empty_settings, dict(n=n), need=('empty-settings',),
                          budget=600, bounds='n=%d' % n, kinds=KINDS))
            obs.append(Ob('multi/n%d' % n, h_multi, dict(n=n), need=('nonempty', 'multi-conflict'), budget=1500,
                          bounds='n=%d' % n, kinds=KINDS))
    return obs
