"""C09 -- operations terminate, fail cleanly, and keep reachable values consistent."""
import re
from typing import Optional

from engine.api import Ob, pick, choose, cover, selftest_ob
from ref.view import S, snapshot

import ansi_string as A
from ansi_string import AnsiString, AnsiStr, AnsiFormat, AnsiSetting

LEVEL = 'model_checking'
AnsiString.WITH_ASSERTIONS = True            # the library's own consistency self-check

STRS = ('', 'a', 'ba', ' ', '\t', 'ab')
WIDTHS = (0, 4, 7, 1, -3, 10000)
SPECS = (None, '', '>5', '^6:red', ' -<7:bold', 'x5', '+5', ':underline', '<', '0>4', ':<3', '^', '5', '<5:nosuch', ':rgb(1,2,3)', '-^9:[1m')
SETTINGS = ('red', ['bold', 'red'], 'nosuchname', '[38;5;9', '', [], AnsiFormat.BG_BLUE, 'rgb(300,0,0)', '[1m', 22, ['red', 'rgb(1,2)'], -1)


def recv(k):
    """Reachable receivers (builders B1-B6)."""
    if k == 0:
        return AnsiString('a b')
    if k == 1:
        return AnsiString('a b', 'red')
    if k == 2:
        s = AnsiString('a b', 'red')
        s.apply_formatting('bold', 1, 3)
        s.apply_formatting('red', 0, 2, topmost=False)
        return s
    if k == 3:
        s = AnsiString('xa by', 'red')
        s.apply_formatting('bold', 2)
        return s[1:4]
    if k == 4:
        return AnsiString('a', 'red').center(3) + AnsiString(' b', 'red')[1:]
    if k == 5:
        return AnsiString('a b', 'red') + AnsiString('', 'red') + AnsiString('\tA', 'red', 'bold')
    if k == 6:
        return AnsiString('\x1b[1;38;5;214ma \x1b[22;4mb\x1b[m')
    if k == 7:
        s = AnsiString('a b')
        s.apply_formatting('bold', -1, 99)
        s.apply_formatting('[1m', 0, 1)
        s.remove_formatting('bold', 1, 50)
        return s
    if k == 8:
        return AnsiString('')
    if k == 9:
        s = AnsiString('ab ab', 'underline')
        s.format_matching('b', 'red')
        s.remove_formatting(None, 1, 4)
        return s.replace('a', AnsiString('b', 'bold'))
    if k == 10:
        s = AnsiString('a b', 'red', 'red')
        s.apply_formatting('red', 1, 2, topmost=False)
        s.simplify()
        s.assign_str('a bcd')
        return s
    if k == 11:
        s = AnsiString('abcd')
        s.apply_formatting(['bold', 'red'], 1, 4)
        s.apply_formatting('blue', 2, 3, topmost=False)
        return s
    return None


N_RECV = 12


def snap9(s):
    """text, per-character settings, optimised and non-optimised rendering."""
    return snapshot(s) + (s.to_str(None, False, True, False),)


def battery(x):
    """Later queries, renderings, slices and concatenations must not raise."""
    if isinstance(x, (list, tuple)):
        for y in x:
            battery(y)
        return
    if isinstance(x, AnsiStr):
        x = AnsiString(x)
    if not isinstance(x, AnsiString):
        return
    n = len(x)
    for o in (True, False):
        for rs in (False, True):
            for re_ in (False, True):
                x.to_str(None, o, rs, re_)
    str(x)
    repr(x)
    for i in (range(-1, n + 2) if n <= 12 else (-1, 0, 1, n // 2, n - 1, n, n + 1)):
        x.ansi_settings_at(i)
        x.settings_at(i)
    x[0:n]
    x[:]
    if n:
        x[n - 1]
        x[-1]
    y = x + 'z'
    str(y)
    str(AnsiString.join('z', x))
    str(x + x)
    x.find_settings('red')
    x.is_formatting_valid()
    x.is_formatting_parsable()
    c = x.copy()
    c.simplify()
    str(c)
    c2 = x.copy()
    c2.remove_formatting()
    str(c2)
    if n <= 12:
        list(iter(x))


# name, f(s, x, y, i, j, w, q) ; strlike: g(t, x, y, i, j, w) giving what str does for the same call (for the allowed error type)
def _set(q):
    return SETTINGS[q % len(SETTINGS)]


OPS = (
    ('apply_formatting', lambda s, x, y, i, j, w, q: s.apply_formatting(_set(q), i, j, bool(w & 1)), None),
    ('remove_formatting', lambda s, x, y, i, j, w, q: s.remove_formatting(None if q == 0 else _set(q), i, j), None),
    ('clip', lambda s, x, y, i, j, w, q: s.clip(i, j, inplace=bool(w & 1)), None),
    ('getitem-slice', lambda s, x, y, i, j, w, q: s[i:j], lambda t, x, y, i, j, w: t[i:j]),
    ('getitem-int', lambda s, x, y, i, j, w, q: s[i], lambda t, x, y, i, j, w: t[i]),
    ('find_settings', lambda s, x, y, i, j, w, q: s.find_settings(_set(q), i, j, bool(w & 1)), None),
    ('settings_at', lambda s, x, y, i, j, w, q: (s.ansi_settings_at(i), s.settings_at(j)), None),
    ('center', lambda s, x, y, i, j, w, q: s.center(w, x, inplace=bool(q & 1), extend_formatting=bool(q & 2)), lambda t, x, y, i, j, w: t.center(w, x)),
    ('ljust', lambda s, x, y, i, j, w, q: s.ljust(w, x, inplace=bool(q & 1), extend_formatting=bool(q & 2)), lambda t, x, y, i, j, w: t.ljust(w, x)),
    ('rjust', lambda s, x, y, i, j, w, q: s.rjust(w, x, inplace=bool(q & 1), extend_formatting=bool(q & 2)), lambda t, x, y, i, j, w: t.rjust(w, x)),
    ('zfill', lambda s, x, y, i, j, w, q: s.zfill(w, inplace=bool(q & 1)), lambda t, x, y, i, j, w: t.zfill(w)),
    ('strip', lambda s, x, y, i, j, w, q: (s.strip(x or None), s.lstrip(x or None, inplace=bool(q & 1)), s.rstrip(y or None)), None),
    ('removeprefix', lambda s, x, y, i, j, w, q: (s.removeprefix(x), s.removesuffix(y, inplace=bool(q & 1))), None),
    ('replace', lambda s, x, y, i, j, w, q: s.replace(x, y if q % 3 == 0 else AnsiString(y, 'bold') if q % 3 == 1 else AnsiStr(y, 'bold'), i, inplace=bool(w & 1)),
     lambda t, x, y, i, j, w: t.replace(x, y, i)),
    ('split', lambda s, x, y, i, j, w, q: (s.split(x or None, i), s.rsplit(y or None, i)), lambda t, x, y, i, j, w: (t.split(x or None, i), t.rsplit(y or None, i))),
    ('splitlines', lambda s, x, y, i, j, w, q: s.splitlines(bool(w & 1)), None),
    ('partition', lambda s, x, y, i, j, w, q: (s.partition(x), s.rpartition(y)), lambda t, x, y, i, j, w: (t.partition(x), t.rpartition(y))),
    ('expandtabs', lambda s, x, y, i, j, w, q: s.expandtabs(w if w < 100 else 3, inplace=bool(q & 1)), None),
    ('count-find', lambda s, x, y, i, j, w, q: (s.count(x, i, j), s.find(x, i, j), s.rfind(y, i, j), s.endswith(x, i, j), x in s), None),
    ('index', lambda s, x, y, i, j, w, q: s.index(x, i, j), lambda t, x, y, i, j, w: t.index(x, i, j)),
    ('rindex', lambda s, x, y, i, j, w, q: s.rindex(x, i, j), lambda t, x, y, i, j, w: t.rindex(x, i, j)),
    ('format', lambda s, x, y, i, j, w, q: format(s, SPECS[q % len(SPECS)] or ''), None),
    ('to_str', lambda s, x, y, i, j, w, q: s.to_str(SPECS[q % len(SPECS)], bool(w & 1), bool(w & 2), bool(w & 4)), None),
    ('assign_str', lambda s, x, y, i, j, w, q: s.assign_str(x + y), None),
    ('set_ansi_str', lambda s, x, y, i, j, w, q: s.set_ansi_str('\x1b[' + x + 'm' + y + '\x1b[1'), None),
    ('format_matching', lambda s, x, y, i, j, w, q: s.format_matching(x, _set(q), regex=bool(w & 1), match_case=bool(w & 2), count=i), None),
    ('unformat_matching', lambda s, x, y, i, j, w, q: s.unformat_matching(x, _set(q), regex=bool(w & 1), match_case=bool(w & 2), count=i), None),
    ('simplify', lambda s, x, y, i, j, w, q: (s.simplify(), s.clear_formatting() if q & 1 else None), None),
    ('add', lambda s, x, y, i, j, w, q: (s + x, s + AnsiString(y, _set(q)), AnsiString.join(s, x, s), AnsiString.join()), None),
    ('iadd', lambda s, x, y, i, j, w, q: s.__iadd__(s if q & 1 else AnsiStr(x, 'red')), None),
    ('case', lambda s, x, y, i, j, w, q: (s.capitalize(), s.casefold(inplace=bool(q & 1)), s.lower(), s.upper(), s.swapcase(), s.title()), None),
    ('misc', lambda s, x, y, i, j, w, q: (s.encode(), list(iter(s)), s.copy(), s == s.copy(), len(s), s.isalnum(), s.isspace(), s.base_str,
                                          AnsiStr(s), AnsiString(AnsiStr(s), _set(q))), None),
    ('ansistr', lambda s, x, y, i, j, w, q: (AnsiStr(s).apply_formatting(_set(q), i, j), AnsiStr(s)[i:j], AnsiStr(s).replace(x, y, i), AnsiStr(s).center(w, x or ' '),
                                             AnsiStr(s) + x, AnsiStr(s).split(x or None)), None),
    ('parse_graphic_sequence', lambda s, x, y, i, j, w, q: (A.parse_graphic_sequence(x + ';' + y, bool(w & 1)), A.parse_graphic_sequence([i, x, 38, 5], bool(w & 1)),
                                                             A.settings_to_dict(A.parse_graphic_sequence([1, 38, 2, 1, 2, 3, 0, 4]))), None),
    ('helpers', lambda s, x, y, i, j, w, q: (A.cursor_up_str(i), A.cursor_position_str(i, j), A.erase_in_display_str(i), A.ParsedAnsiControlSequenceString(x + '\x1b[' + y)), None),
)
ALLOWED = (TypeError, ValueError)
# integer arguments that CrossHair would realise value by value are enumerated instead
BOUNDED_INT = ('replace', 'split', 'format_matching', 'unformat_matching', 'ansistr', 'parse_graphic_sequence', 'helpers', 'count-find', 'index', 'rindex')
INTS = (-7, -1, 0, 1, 2, 3, 99)


def h_op(op: int, r: int, xi: int, yi: int, i: Optional[int], j: Optional[int], wi: int, q: int, second: int = -1, r2: int = 0,
         qmax=8, wmax=len(WIDTHS) - 1, lite=False, rset=tuple(range(N_RECV)), nx=len(STRS), ny=len(STRS), ints=INTS):
    o = choose(op, OPS)
    if o is None:
        return None
    k = choose(r, (2, 4, 7, 9)) if lite else choose(r, rset)
    if k is None:
        return None
    x = choose(xi, STRS[:nx])
    if x is None:
        return None
    y = choose(yi, STRS[:ny])
    if y is None:
        return None
    w = choose(wi, WIDTHS[:wmax + 1])
    if w is None:
        return None
    qq = pick(q, 0, qmax)
    if qq is None:
        return None
    name, f, g = o
    if name in BOUNDED_INT or lite or ints is not INTS:
        if i is None or j is None:
            return None
        i = choose(i, ints)
        if i is None:
            return None
        j = choose(j, ints)
        if j is None:
            return None
    elif name in ('apply_formatting', 'remove_formatting', 'find_settings', 'settings_at', 'getitem-int'):
        if i is None or (j is None and name in ('settings_at',)):
            return None
    s = recv(k)
    if second >= 0:
        # thorough: one more operation first (errors of the first step are not judged here)
        o2 = choose(second, OPS)
        if o2 is None:
            return None
        rr = pick(r2, 0, 2)
        if rr is None:
            return None
        try:
            o2[1](s, STRS[(1, 3, 5)[rr]], 'a', rr - 1, 2, 4, rr)
        except Exception:
            cover('first-step-error')
            return None
    snap = snap9(s)
    before = s.copy()
    try:
        res = f(s, x, y, i, j, w, qq)
    except Exception as e:
        ok = isinstance(e, ALLOWED)
        if not ok and isinstance(e, IndexError) and name in ('getitem-int',):
            n = len(s)
            ok = not (-n <= i < n)
        if not ok and g is not None:
            try:
                g(s.base_str, x, y, i, j, w)
            except Exception as e2:
                ok = type(e2) is type(e)
        if not ok:
            return ('undocumented-error-type', name, type(e).__name__, str(e)[:100])
        if snap9(s) != snap or not (s == before):
            return ('changed-after-error', name, type(e).__name__, snap, snap9(s))
        cover('error')
        try:
            battery(s)
        except Exception as e3:
            return ('inconsistent-after-error', name, type(e3).__name__, str(e3)[:100])
        return True
    try:
        battery(s)
        battery(res)
    except Exception as e:
        return ('later-operation-raises', name, type(e).__name__, str(e)[:120], k)
    cover('success')
    return True


def h_receivers(r: int):
    """Every builder receiver itself passes the observation battery under WITH_ASSERTIONS."""
    k = pick(r, 0, N_RECV - 1)
    if k is None:
        return None
    try:
        battery(recv(k))
    except Exception as e:
        return ('receiver-inconsistent', k, type(e).__name__, str(e)[:120])
    cover('receiver')
    return True


BOUNDS = {
    'quick': '%d operation groups (the whole public surface incl. parsing helpers) x 6 of %d reachable receivers (plain, overlapping, sliced, centered+concatenated, equal seams, '
             'parsed, applied beyond the end + invalid setting + removed, empty, matched/removed/replaced, simplified+assigned) x 4x2 string arguments (incl. empty; 4x3 for replace, so that the replacement can contain the pattern) x '
             'up to 6 widths (incl. 0, negative, 10000 for center/zfill) x up to 4 settings/specs; range/index arguments from (-7,-1,0,2,99) (thorough: ALL integers / None where '
             'the operation does not realise them, full palettes); after an error: receiver unchanged; after success: 8 renderings, every index, slices, concatenations, simplify, copy under WITH_ASSERTIONS; '
             'per-path watchdog for termination' % (len(OPS), N_RECV),
    'thorough': 'quick-tier palettes on all 11 receivers, plus two operations in sequence: each operation group after any of the 35 groups (3 argument variants) on 4 receivers',
}
OUTSIDE = ('histories longer than builder + 2 operations; termination is bounded by the per-path watchdog (30 s) and replayed concretely; arguments outside the palettes')
ASSUMPTIONS = ['allowed error types: TypeError, ValueError, IndexError for an out-of-range integer index, or the type str raises for the same call']
KINDS = 'O: range/index arguments (where not realised by the operation); E: operation, receiver, string palette, widths, settings selector'


def obligations(tier):
    obs = [selftest_ob()]
    obs.append(Ob('receivers', h_receivers, {}, need=('receiver',), budget=300, bounds='%d receivers' % N_RECV, kinds=KINDS))
    # per operation group: which palette arguments it consumes (others are fixed), flag width (w used as flags only), settings/flag range
    dom = {
        'apply_formatting': dict(ij=1, w=1, q=11), 'remove_formatting': dict(ij=1, q=11), 'clip': dict(ij=1, w=1), 'getitem-slice': dict(ij=1),
        'getitem-int': dict(ij=1), 'find_settings': dict(ij=1, w=1, q=11), 'settings_at': dict(ij=1),
        'center': dict(x=1, w=5, q=3), 'ljust': dict(x=1, w=5, q=3), 'rjust': dict(x=1, w=5, q=3), 'zfill': dict(w=5, q=1),
        'strip': dict(x=1, y=1, q=1), 'removeprefix': dict(x=1, y=1, q=1), 'replace': dict(x=1, y=1, ij=1, w=1, q=2),
        'split': dict(x=1, y=1, ij=1), 'splitlines': dict(w=1), 'partition': dict(x=1, y=1), 'expandtabs': dict(w=3, q=1),
        'count-find': dict(x=1, y=1, ij=1), 'index': dict(x=1, ij=1), 'rindex': dict(x=1, ij=1), 'format': dict(q=15), 'to_str': dict(w=5, q=15),
        'assign_str': dict(x=1, y=1), 'set_ansi_str': dict(x=1, y=1), 'format_matching': dict(x=1, ij=1, w=3, q=11),
        'unformat_matching': dict(x=1, ij=1, w=3, q=11), 'simplify': dict(q=1), 'add': dict(x=1, y=1, q=11), 'iadd': dict(x=1, q=1), 'case': dict(q=1),
        'misc': dict(q=11), 'ansistr': dict(x=1, ij=1, w=2, q=2), 'parse_graphic_sequence': dict(x=1, y=1, ij=1, w=1), 'helpers': dict(x=1, y=1, ij=1),
    }
    for op, (name, f, g) in enumerate(OPS):
        d = dom[name]
        fixed = dict(op=op, qmax=d.get('q', 0), wmax=d.get('w', 0))
        if not d.get('ij'):
            fixed.update(i=0, j=0)
        elif name in ('ansistr', 'helpers', 'format_matching', 'unformat_matching', 'replace', 'split', 'index', 'rindex', 'getitem-int'):
            fixed.update(j=2)
        if not d.get('x'):
            fixed['xi'] = 1
        if not d.get('y'):
            fixed['yi'] = 1
        if not d.get('w'):
            fixed['wi'] = 0
        if not d.get('q'):
            fixed['q'] = 0
        if tier == 'quick':
            fq = dict(fixed, rset=(2, 4, 7, 9, 8, 11), nx=4, ny=3 if name == 'replace' else 2, ints=(-7, -1, 0, 2, 99), wmax=min(fixed['wmax'], 2) if name not in ('center', 'zfill') else fixed['wmax'],
                      qmax=min(fixed['qmax'], 3))
            if name == 'ansistr':
                for xi in range(3):
                    obs.append(Ob('op/%s/x%d' % (name, xi), h_op, dict(fq, xi=xi), need=('success',) if len(STRS[xi]) <= 1 else ('error',), budget=900, per_path=30,
                                  bounds='operation group %s on 5 receivers, 5 integers' % name, kinds=KINDS))
                continue
            obs.append(Ob('op/%s' % name, h_op, fq, need=('success',), budget=900, per_path=30,
                          bounds='operation group %s on 6 receivers, 4x2 strings, 5 integers' % name, kinds=KINDS))
        else:
            f2 = dict(fixed, lite=True, xi=1, yi=2, wi=min(1, d.get('w', 0)), qmax=min(1, d.get('q', 0)), ints=(-1, 0, 2))
            obs.append(Ob('op2/%s' % name, h_op, f2, need=('success',), budget=1500, per_path=30,
                          bounds='%s after any of the %d operation groups (3 argument variants) on 4 receivers; integers from (-1,0,2)' % (name, len(OPS)), kinds=KINDS))
            ft = dict(fixed, nx=4, ny=3 if name == 'replace' else 2, ints=(-7, -1, 0, 2, 99), wmax=min(fixed['wmax'], 2) if name not in ('center', 'zfill') else fixed['wmax'],
                      qmax=min(fixed['qmax'], 3))
            obs.append(Ob('op/%s' % name, h_op, ft, need=('success',), budget=1500, per_path=30,
                          bounds='operation group %s on all %d receivers, quick-tier argument palettes' % (name, N_RECV), kinds=KINDS))
    return obs
