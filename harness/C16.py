"""C16 -- format_matching / unformat_matching equal apply / remove over re matches."""
import re

from engine.api import Ob, pick, choose, cover, selftest_ob
from ref.view import S, SIGMA, ranges

from ansi_string import AnsiString, AnsiStr

LEVEL = 'model_checking'
ESC = '\x1b'
SIG = (SIGMA[0], SIGMA[2], SIGMA[1])           # red, bold, blue

# (pattern, regex flag) -- simple regexes on which the symbolic regex engine completes, and literals with metacharacters
PATTERNS = (('a+', True), ('b*', True), ('ab', False), ('a', False), ('a.', False), ('.', True), ('a|b', True), ('(a)(b)?', True),
            ('+', False), ('a.', True))
FMTS = ((('red',), ('31',)), (('bold', 'underline'), ('1', '4')), ((), ()), ((['blue', 'bold'],), ('34', '1')))
UNFMTS = ((), (None,), ('red',), ('bold', 'red'), ('blue',), (['red'], None))


def styled(t, n, s1, r1, few=False):
    s = AnsiString(t)
    st = choose(s1, SIG)
    if st is None:
        return None
    rs = ranges(n)
    r = choose(r1, (rs[0], rs[n - 1], rs[-1]) if few and n > 1 else rs)
    if r is None:
        return None
    s.apply_formatting(st[0], r[0], r[1])
    return s


def matches(pat, is_regex, t, match_case, count):
    p = pat if is_regex else re.escape(pat)
    out = []
    for m in re.finditer(p, t, 0 if match_case else re.IGNORECASE):
        if count < 0 or len(out) < count:
            out.append((m.start(), m.end()))
        else:
            break
    return out


def run(t, n, s1, r1, pi, mc, count, fi, un, cls, few=False):
    pr = choose(pi, PATTERNS)
    if pr is None:
        return None
    pat, is_regex = pr
    s = styled(t, n, s1, r1, few) if n else AnsiString(t)
    if s is None:
        return None
    tab = S(s, n)
    exp = s.copy()
    ms = matches(pat, is_regex, t, bool(mc), count)
    if un:
        fmt = choose(fi, UNFMTS[:3] if few else UNFMTS)
        if fmt is None:
            return None
        sel = None if (not fmt or None in fmt) else list(fmt)
        for a, b in ms:
            exp.remove_formatting(sel, a, b)
    else:
        fm = choose(fi, FMTS[:2] if few else FMTS)
        if fm is None:
            return None
        fmt = fm[0]
        for a, b in ms:
            exp.apply_formatting(fmt, a, b)
    recv = s if cls == 0 else AnsiStr(s)
    if un:
        res = recv.unformat_matching(pat, *fmt, regex=is_regex, match_case=bool(mc), count=count)
    else:
        res = recv.format_matching(pat, *fmt, regex=is_regex, match_case=bool(mc), count=count)
    got = s if cls == 0 else res
    if cls == 1 and (S(s, n) != tab or S(recv, n) != tab or str.__str__(recv) != recv.to_str() or not isinstance(res, AnsiStr)):
        return ('ansistr-receiver-changed', S(recv, n), tab)
    if got.base_str != t:
        return ('text-changed', got.base_str)
    if S(got, n) != S(exp, n) or str(got) != str(exp):
        return ('differs-from-apply-over-matches', pat, t, mc, count, S(got, n), S(exp, n), ms)
    # characters outside all matches keep their settings
    for i in range(n):
        if not any(a <= i < b for a, b in ms) and S(got, n)[i] != tab[i]:
            return ('outside-match-changed', i)
    if ms:
        cover('matched')
        if len(ms) >= 2:
            cover('two-matches')
        if any(a == b for a, b in ms):
            cover('empty-match')
    if count == 0:
        cover('count-0')
    elif count > 0 and len(ms) == count:
        cover('count-limited')
    return True


def h_sym(t: str, n: int, s1: int, r1: int, pi: int, mc: bool, count: int, fi: int, un: bool):
    if len(t) != n or ESC in t:
        return None
    return run(t, n, s1, r1, pi, mc, count, fi, un, 0)


PAIRS = (('aXa', 3), ('AbAB', 4), ('a.b', 3), ('a+a', 3), ('', 0), ('ba', 2), ('aaa', 3), ('A a', 3), ('xaby', 4), ('..', 2), ('.', 1), ('a.', 2), ('+', 1))


def h_pairs(ti: int, s1: int, r1: int, pi: int, mc: bool, count: int, fi: int, un: bool, cls: int):
    tp = choose(ti, PAIRS)
    if tp is None or cls not in (0, 1):
        return None
    return run(tp[0], tp[1], s1 if tp[1] else 0, r1 if tp[1] else 0, pi, mc, count, fi, un, cls, few=True)


BOUNDS = {
    'quick': 'family (i): base text = any string (all Unicode, no ESC) of length <=2 x 4 simple patterns (a+, b*, literal ab, literal a); family (ii): 13 concrete '
             'texts (incl. texts as short as the escaped pattern) x 10 patterns (literals with metacharacters, alternation, groups, dot); prior formatting: 1 apply step over (red, bold, blue) on all canonical ranges (family ii: red on the first / full / last range, 2 formats / 3 selections); '
             'both case flags; count: ALL integers; 4 formats / 6 unformat selections; both classes in family (ii)',
    'thorough': 'family (i) texts up to length 3 and 8 patterns (a+, b*, ab, a, ., a|b, (a)(b)?, regex a.)',
}
OUTSIDE = 'patterns are never symbolic; texts are symbolic only in family (i); longer texts; more than one prior apply step'
ASSUMPTIONS = ['re.finditer defines the matches (Python\'s re on the shadow replay, CrossHair\'s regex model on the symbolic run)']
KINDS = 'C: base text (family i); O: count; E: pattern, case flag, format selection, builder selector/range, class'


def obligations(tier):
    q = tier == 'quick'
    obs = [selftest_ob()]
    # family (i): only patterns on which CrossHair's symbolic regex engine completes (escaped metacharacters under IGNORECASE
    # -- 'a.' and '+' as literals -- end in PathTimeout / unknown paths: they are covered concretely in family (ii))
    pats = (0, 1, 2, 3) if q else (0, 1, 2, 3, 5, 6, 7, 9)
    for un in (False, True):
        for pi in pats:
            for n in (0, 1, 2) if q else (0, 1, 2, 3):
                f = dict(n=n, pi=pi, un=un)
                if n == 0:
                    f.update(s1=0, r1=0)
                obs.append(Ob('sym/%s/p%d/n%d' % ('un' if un else 'fmt', pi, n), h_sym, f, need=('matched',) if n >= (2 if pi in (2, 9) else 1) and pi != 1 else (), budget=900, per_path=40,
                              bounds='text length %d, pattern %r' % (n, PATTERNS[pi][0]), kinds=KINDS))
        for ti in range(len(PAIRS)):
            for cls in (0, 1):
                if cls == 1 and q and ti not in (0, 1):
                    continue
                obs.append(Ob('pairs/%s/t%d/c%d' % ('un' if un else 'fmt', ti, cls), h_pairs, dict(ti=ti, un=un, cls=cls, s1=0), need=('count-0',), budget=900,
                              bounds='text %r x 10 patterns' % (PAIRS[ti][0],), kinds=KINDS))
    return obs
