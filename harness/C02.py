"""C02 -- parsing ANSI-coded input preserves text and appearance."""
from engine.api import Ob, pick, choose, cover, selftest_ob
from ref import term
from ref.view import S

from ansi_string import AnsiString, AnsiStr

LEVEL = 'model_checking'
ESC = '\x1b'


def sgr(p):
    return ESC + '[' + p + 'm'


SEQS = (
    '', sgr('1'), sgr('31'), sgr('1;31'), sgr('22'), sgr('0'), sgr(''), sgr('38;5;214'), sgr('1;38;5;214'),
    sgr('4;38;5;200;1'), sgr('48;2;1;2;3;4'), sgr('39'), sgr('77'), sgr('38;5'), sgr('1') + sgr('31'),
    ESC + '[2J', ESC + '[1;2H', ESC + '[12', sgr('1;;31'), sgr('01;031'), sgr('58;2;1;2;3;21'), sgr('2;38;2;1;2'),
    sgr(';1'), sgr('31;'), sgr('39;38;5;9'), sgr('0;1'), sgr('1;0'), ESC + '[3~', ESC + '[@', sgr('38;5;9;1') + ESC + '[}', sgr('0;1;4'), sgr('49;3;9'), sgr('38;5;46'),
)
TEXTS1 = ('', 'x', 'xy')
TEXTS2 = ('', 'x', ESC, '[', 'm', '1', ';')


def check_parse(inp, cls=0):
    try:
        cells, _, n_sgr = term.interpret(inp)
    except term.Ambiguous:
        cover('ambiguous')
        return None
    s = AnsiString(inp) if cls == 0 else AnsiStr(inp)
    text = ''.join(c for c, _ in cells)
    if s.base_str != text:
        return ('text-differs', inp, s.base_str, text)
    tab = S(s, len(text))
    for i in range(len(text)):
        try:
            got = term.red(tab[i])
        except term.Ambiguous:
            return ('reported-setting-malformed', inp, i, tab[i])
        if got != cells[i][1]:
            return ('style-differs', inp, i, tab[i], cells[i][1])
    if n_sgr == 0:
        if any(tab) or str(s) != inp:
            return ('plain-text-changed', inp, str(s))
        cover('no-sgr')
    else:
        cover('sgr')
        if any(st for _, st in cells):
            cover('styled-char')
    if ESC in text:
        cover('esc-kept-in-text')
    return True


def h_segments(q1: int, t1: int, q2: int, t2: int, q3: int, t3: int, cls: int = 0):
    a = choose(q1, SEQS)
    b = choose(q2, SEQS)
    c = choose(q3, SEQS)
    x = choose(t1, TEXTS1)
    y = choose(t2, TEXTS2)
    z = choose(t3, TEXTS1)
    if None in (a, b, c, x, y, z):
        return None
    return check_parse(a + x + b + y + c + z, cls)


def h_symbolic(q1: int, q2: int, x: str, y: str, seqs=(1, 8, 4, 15)):
    a = choose(q1, [SEQS[i] for i in seqs])
    b = choose(q2, [SEQS[i] for i in seqs])
    if a is None or b is None or len(x) > 1 or len(y) > 1:
        return None
    return check_parse(a + x + b + y)


def h_set_ansi_str(q1: int, t1: int, q2: int, t2: int, used: int):
    """set_ansi_str on an object that already carries text and formatting gives what the constructor gives."""
    a = choose(q1, SEQS)
    if a is None:
        return None
    x = choose(t1, TEXTS1)
    if x is None:
        return None
    b = choose(q2, SEQS)
    if b is None:
        return None
    y = choose(t2, TEXTS2)
    if y is None:
        return None
    u = pick(used, 0, 2)
    if u is None:
        return None
    inp = a + x + b + y
    s = AnsiString('hello', 'red') if u == 0 else AnsiString('\x1b[1;4mab\x1b[22mcd') if u == 1 else AnsiString('')
    if u == 1:
        s.apply_formatting('blue', 1, 3)
    s.set_ansi_str(inp)
    e = AnsiString(inp)
    if s.base_str != e.base_str or S(s) != S(e) or str(s) != str(e) or not (s == e):
        return ('set_ansi_str-differs-from-constructor', inp, S(s), S(e))
    s.set_ansi_str(inp)
    if S(s) != S(e) or str(s) != str(e):
        return ('set_ansi_str-twice-differs', inp, S(s), S(e))
    cover('set')
    return True


def h_plain(t: str, n: int):
    """Text without ESC is kept unchanged and unformatted (any characters)."""
    if len(t) != n or ESC in t:
        return None
    s = AnsiString(t)
    if s.base_str != t or str(s) != t or any(S(s, n)):
        return ('plain-text-changed', t, s.base_str, str(s))
    if not s.is_formatting_valid() or not s.is_formatting_parsable():
        return ('plain-text-flags', t)
    cover('plain')
    return True


CTX = ('{}', '1;{}', '{};1', '31;{};4', '38;5;{}', '{};5;9')


def h_free(f: int, ctx: int, pre: int):
    v = pick(f, 0, 256)
    c = choose(ctx, CTX)
    p = choose(pre, ('', sgr('1;31;4'), sgr('48;5;7')))
    if v is None or c is None or p is None:
        return None
    if v not in term.KNOWN:
        cover('unknown-code')
    return check_parse(p + 'a' + sgr(c.format(v)) + 'b')


BOUNDS = {
    'quick': 'inputs = seq+text+seq+text with seq from a %d-sequence alphabet (SGR with single/multi/extended/incomplete/empty-field params, '
             'back-to-back, non-SGR CSI, unterminated CSI) and texts from small palettes incl. ESC, "[", "m", ";", digit; 2 segments with '
             '4 sequences and symbolic 1-char texts (any Unicode); plain ESC-free texts of length <=3 (symbolic); free code 0..256 in 6 contexts x 3 priors' % len(SEQS),
    'thorough': '3 segments over the full alphabet (outer texts "x", middle text from the palette); symbolic texts with 8 sequences; plain texts <=5',
}
OUTSIDE = ('sequences outside the alphabet; parameters that are not plain decimal numbers (blank-padded, signed) and inputs whose terminal reading '
           'the statements leave open (introducer followed by a selector other than 5/2, colour components > 255) are excluded and counted')
ASSUMPTIONS = ['an empty parameter inside a sequence is 0 (ECMA-48 default), e.g. ESC[1;;31m = bold, reset, red']
KINDS = 'E: sequence selectors, palette texts, free code, context; C: symbolic text characters (any Unicode, length bound)'


def obligations(tier):
    obs = [selftest_ob()]
    nq = len(SEQS)
    for q1 in range(nq):
        f = dict(q1=q1, q3=0, t3=0)
        obs.append(Ob('seg2/q%d' % q1, h_segments, f, need=('sgr',) if q1 not in (0, 15, 16, 17, 27, 28) else (), budget=900,
                      bounds='2 segments, first sequence %r' % SEQS[q1], kinds=KINDS))
    for q1 in (1, 3, 8, 13, 17, 0):
        obs.append(Ob('set_ansi_str/q%d' % q1, h_set_ansi_str, dict(q1=q1), need=('set',), budget=600,
                      bounds='set_ansi_str on 3 used receivers, first sequence %r' % SEQS[q1], kinds=KINDS))
    obs.append(Ob('seg1/ansistr', h_segments, dict(q2=0, t2=0, q3=0, t3=0, cls=1), need=('sgr', 'no-sgr'), budget=300,
                  bounds='1 segment, AnsiStr', kinds=KINDS))
    if tier == 'thorough':
        for q1 in range(nq):
            obs.append(Ob('seg3/q%d' % q1, h_segments, dict(q1=q1, t1=1, t3=1), need=(), budget=3000,
                          bounds='3 segments (texts x / palette / x), first sequence %r' % SEQS[q1], kinds=KINDS))
        obs.append(Ob('symbolic/8', h_symbolic, dict(seqs=(1, 8, 4, 15, 5, 13, 17, 18)), need=('sgr', 'esc-kept-in-text'), budget=3000, per_path=60,
                      bounds='2 segments, 8 sequences, symbolic 1-char texts', kinds=KINDS))
    obs.append(Ob('symbolic/4', h_symbolic, {}, need=('sgr',), budget=900, per_path=60,
                  bounds='2 segments, 4 sequences, symbolic texts of length <=1', kinds=KINDS))
    for n in range(0, 4 if tier == 'quick' else 6):
        obs.append(Ob('plain/n%d' % n, h_plain, dict(n=n), need=('plain',), budget=600, bounds='ESC-free text of length %d' % n, kinds=KINDS))
    for ctx in range(len(CTX)):
        obs.append(Ob('free/ctx%d' % ctx, h_free, dict(ctx=ctx), need=('unknown-code', 'sgr'), budget=900,
                      bounds='free code 0..256 in %r x 3 priors' % CTX[ctx], kinds=KINDS))
    return obs
