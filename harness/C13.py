"""C13 -- AnsiStr is equivalent to AnsiString; its str payload equals its rendering."""
import re
from typing import Optional

from engine.api import Ob, pick, choose, cover, selftest_ob
from ref import term
from ref.view import S, ranges

from ansi_string import AnsiString, AnsiStr, AnsiFormat, AnsiSetting

LEVEL = 'model_checking'

TEXTS = ('a b', 'Ab\tc', '', 'a\xdf')
SETS = ('red', ['bold', '[38;5;9'], ['red', 'blue', '[99'], 'bold')
ARGS = ('', 'a', 'b', ' ', 'ab')


SETS_M = (SETS[0], SETS[2])        # method / range families: plain red, and stacked conflicting + unknown verbatim


def receiver(ti, si, ri, sets=SETS_M):
    t = choose(ti, TEXTS)
    if t is None:
        return None
    s = AnsiString(t)
    if t:
        st = choose(si, sets)
        if st is None:
            return None
        rs = ranges(len(t))
        r = choose(ri, (rs[0], rs[len(t) - 1], rs[-1], rs[len(t)]))      # first char, whole text, last char, inner
        if r is None:
            return None
        s.apply_formatting(st, r[0], r[1])
    elif si != 0 or ri != 0:
        return None
    return s


def payload_ok(a):
    return str.__str__(a) == str(a) == a.to_str() and ('%s' % (a,)) == str(a)


def equiv(x, y):
    """x: AnsiString-side result, y: AnsiStr-side result.  Returns None or a failure description."""
    if isinstance(x, AnsiString):
        if not isinstance(y, AnsiStr):
            return 'result type %s' % type(y).__name__
        if x.base_str != y.base_str:
            return 'text %r vs %r' % (x.base_str, y.base_str)
        n = len(x.base_str)
        tx, ty = S(x, n), S(y, n)
        for i in range(n):
            if not term.same(tx[i], ty[i]):
                return 'settings at %d: %r vs %r' % (i, tx[i], ty[i])
        if str(x) != str(y) or x.to_str(None, False, True, False) != y.to_str(None, False, True, False) \
                or format(x, '>6') != format(y, '>6') or format(x, '') != format(y, ''):
            return 'rendering %r vs %r' % (str(x), str(y))
        if not payload_ok(y):
            return 'payload %r vs rendering %r' % (str.__str__(y), y.to_str())
        return None
    if isinstance(x, (list, tuple)):
        if not isinstance(y, (list, tuple)) or len(x) != len(y):
            return 'sequence %r vs %r' % (type(x).__name__, type(y).__name__)
        for a, b in zip(x, y):
            bad = equiv(a, b)
            if bad:
                return bad
        return None
    if isinstance(y, (AnsiStr, AnsiString)):
        return 'unexpected AnsiStr result'
    if x != y:
        return 'value %r vs %r' % (x, y)
    return None


def both(s, f_string, f_str):
    """Run the AnsiString form on a copy and the AnsiStr form on AnsiStr(s); compare outcomes."""
    a = AnsiStr(s)
    if not payload_ok(a):
        return ('payload-differs', str.__str__(a), a.to_str())
    snap = (a.base_str, S(a), str(a))
    try:
        x = ('ok', f_string(s.copy()))
    except Exception as e:
        x = ('exc', type(e).__name__)
    try:
        y = ('ok', f_str(a))
    except Exception as e:
        y = ('exc', type(e).__name__)
    if x[0] != y[0]:
        return ('outcome-differs', x[0], repr(x[1])[:80], y[0], repr(y[1])[:80])
    if x[0] == 'exc':
        if x[1] != y[1]:
            return ('exception-differs', x[1], y[1])
        cover('raises')
    else:
        bad = equiv(x[1], y[1])
        if bad:
            return ('result-differs', bad)
    if (a.base_str, S(a), str(a)) != snap or not payload_ok(a):
        return ('ansistr-receiver-changed',)
    return None


def mut(name, *args, **kw):
    """AnsiString form of a method that mutates in place and returns None: result = the mutated copy."""
    def f(c):
        getattr(c, name)(*args, **kw)
        return c
    return f


def call(name, *args, **kw):
    return lambda o: getattr(o, name)(*args, **kw)


NOARG_COPY = ('capitalize', 'casefold', 'lower', 'upper', 'swapcase', 'title')
NOARG_QUERY = ('isalnum', 'isalpha', 'isascii', 'isdecimal', 'isdigit', 'isidentifier', 'islower', 'isnumeric', 'isprintable',
               'isspace', 'istitle', 'isupper', 'is_formatting_valid', 'is_formatting_parsable', 'is_optimizable', '__len__')
STR_ARG = ('lstrip', 'rstrip', 'strip', 'partition', 'rpartition', 'removeprefix', 'removesuffix', '__contains__')
SUB_ARGS = ('count', 'find', 'rfind', 'index', 'rindex', 'endswith')


SIMPLE_NAMES = NOARG_COPY + NOARG_QUERY + STR_ARG + SUB_ARGS + (
    'clear_formatting', 'simplify', 'center', 'ljust', 'rjust', 'zfill', 'replace', 'replace-ansistring', 'replace-ansistr',
    'split', 'rsplit', 'splitlines', 'expandtabs', 'encode', 'to_str', '__format__', '__iter__', '__add__', '__iadd__', 'join',
    '__eq__', 'base_str', 'format_matching', 'unformat_matching', 'apply_formatting_for_match', 'add-ansistring', 'add-ansistr',
    'unformat_matching-all', 'unformat_matching-none', 'format_matching-two')


def uses(name):
    """Which of the palette arguments (a, b, k) a shared method consumes."""
    if name in NOARG_COPY or name in NOARG_QUERY or name in ('clear_formatting', 'simplify', 'encode', '__iter__', '__eq__', 'base_str'):
        return ''
    if name in STR_ARG or name in ('__add__', '__iadd__', 'add-ansistring', 'add-ansistr', '__format__', 'apply_formatting_for_match'):
        return 'a'
    if name in SUB_ARGS or name in ('center', 'ljust', 'rjust', 'replace-ansistring', 'replace-ansistr', 'split', 'rsplit', 'to_str',
                                    'format_matching', 'unformat_matching', 'unformat_matching-all', 'unformat_matching-none', 'format_matching-two'):
        return 'ak'
    if name in ('zfill', 'splitlines', 'expandtabs'):
        return 'k'
    if name == 'join':
        return 'ab'
    return 'abk'


def h_range(ti: int, si: int, ri: int, m: int, sel: int, c: Optional[int], d: Optional[int], top: bool, allsets=False):
    """Methods taking a range: apply/remove_formatting, clip, slicing, find_settings."""
    s = receiver(ti, si, ri, SETS if allsets else SETS_M)
    if s is None:
        return None
    name = choose(m, ('apply_formatting', 'remove_formatting', 'clip', '__getitem__', 'find_settings'))
    if name is None:
        return None
    st = choose(sel, SETS[:2])
    if st is None:
        return None
    if name == 'apply_formatting':
        if c is None:
            return None
        bad = both(s, mut(name, st, c, d, bool(top)), call(name, st, c, d, bool(top)))
    elif name == 'remove_formatting':
        if c is None:
            return None
        arg = None if top else st
        bad = both(s, mut(name, arg, c, d), call(name, arg, c, d))
    elif name == 'clip':
        bad = both(s, call(name, c, d), call(name, c, d))
    elif name == '__getitem__':
        bad = both(s, lambda o: o[c:d], lambda o: o[c:d])
    else:
        if c is None:
            return None
        bad = both(s, call(name, st, c, d, bool(top)), call(name, st, c, d, bool(top)))
    if bad:
        return bad + (name,)
    cover('range-method')
    return True


def h_index(ti: int, si: int, ri: int, m: int, i: int):
    s = receiver(ti, si, ri)
    if s is None:
        return None
    name = choose(m, ('__getitem__', 'ansi_settings_at', 'settings_at'))
    if name is None:
        return None
    if name == 'ansi_settings_at':
        bad = both(s, lambda o: [str(x) for x in o.ansi_settings_at(i)], lambda o: [str(x) for x in o.ansi_settings_at(i)])
    elif name == 'settings_at':
        bad = both(s, call(name, i), call(name, i))
    else:
        bad = both(s, lambda o: o[i], lambda o: o[i])
    if bad:
        return bad + (name,)
    cover('index-method')
    return True


def h_simple(ti: int, si: int, ri: int, m: int, ai: int, bi: int, k: int):
    """Everything else: selector m over the remaining shared methods."""
    s = receiver(ti, si, ri)
    if s is None:
        return None
    names = SIMPLE_NAMES
    name = choose(m, names)
    if name is None:
        return None
    a = choose(ai, ARGS)
    if a is None:
        return None
    b = choose(bi, ARGS)
    if b is None:
        return None
    kk = pick(k, -1, 3)
    if kk is None:
        return None
    if name in NOARG_COPY or name in NOARG_QUERY:
        if ai or bi or kk:
            return None
        bad = both(s, call(name), call(name))
    elif name in STR_ARG:
        if bi or kk:
            return None
        arg = a
        if name in ('lstrip', 'rstrip', 'strip') and a == '':
            arg = None
        bad = both(s, call(name, arg), call(name, arg))
    elif name in SUB_ARGS:
        if bi:
            return None
        bad = both(s, call(name, a, kk), call(name, a, kk))
    elif name == 'clear_formatting':
        if ai or bi or kk:
            return None
        bad = both(s, mut(name), call(name))
    elif name == 'simplify':
        if ai or bi or kk:
            return None
        bad = both(s, mut(name), call(name))
    elif name in ('center', 'ljust', 'rjust'):
        if bi:
            return None
        fill = a if len(a) == 1 else ('..' if a == 'ab' else '')
        bad = both(s, call(name, kk + 2, fill) if fill != '' else call(name, kk + 2), call(name, kk + 2, fill) if fill != '' else call(name, kk + 2))
    elif name == 'zfill':
        if ai or bi:
            return None
        bad = both(s, call(name, kk + 2), call(name, kk + 2))
    elif name == 'replace':
        bad = both(s, call(name, a, b, kk), call(name, a, b, kk)) if a else None
    elif name == 'replace-ansistring':
        if not a or bi:
            return None
        bad = both(s, call('replace', a, AnsiString('Q', 'underline'), kk), call('replace', a, AnsiString('Q', 'underline'), kk))
    elif name == 'replace-ansistr':
        if not a or bi:
            return None
        bad = both(s, call('replace', a, AnsiStr('Q', 'underline'), kk), call('replace', a, AnsiStr('Q', 'underline'), kk))
    elif name in ('split', 'rsplit'):
        if bi:
            return None
        bad = both(s, call(name, a or None, kk), call(name, a or None, kk))
    elif name == 'splitlines':
        if ai or bi or kk not in (0, 1):
            return None
        bad = both(s, call(name, bool(kk)), call(name, bool(kk)))
    elif name == 'expandtabs':
        if ai or bi or kk < 0:
            return None
        bad = both(s, call(name, kk), call(name, kk))
    elif name == 'encode':
        if ai or bi or kk:
            return None
        bad = both(s, call(name), call(name))
    elif name == 'to_str':
        if bi or kk < 0:
            return None
        kk = kk * 2 + 1
        spec = (None, '>5', '^4:red', ' -<6:bold', 'x5')[ai]
        bad = both(s, call(name, spec, bool(kk & 1), bool(kk & 2), bool(kk & 4)), call(name, spec, bool(kk & 1), bool(kk & 2), bool(kk & 4)))
    elif name == '__format__':
        if bi or kk:
            return None
        spec = ('', '>5', '^4:red', ' -<6:bold', ':underline')[ai]
        bad = both(s, lambda o: format(o, spec), lambda o: format(o, spec))
    elif name == '__iter__':
        if ai or bi or kk:
            return None
        bad = both(s, lambda o: list(iter(o)), lambda o: list(iter(o)))
    elif name in ('__add__', '__iadd__'):
        if bi or kk:
            return None
        if name == '__add__':
            bad = both(s, lambda o: o + a, lambda o: o + a)
        else:
            def f1(o):
                o += a
                return o

            def f2(o):
                o += a
                return o
            bad = both(s, f1, f2)
    elif name in ('add-ansistring', 'add-ansistr'):
        if bi or kk:
            return None
        other = AnsiString(a or 'z', 'red') if name == 'add-ansistring' else AnsiStr(a or 'z', 'red')
        bad = both(s, lambda o: o + other, lambda o: o + other)
    elif name == 'join':
        if kk:
            return None
        bad = both(s, lambda o: AnsiString.join(o, a, AnsiString(b, 'bold')), lambda o: AnsiStr.join(o, a, AnsiString(b, 'bold')))
    elif name == '__eq__':
        if ai or bi or kk:
            return None
        o2 = s.copy()
        bad = both(s, lambda o: (o == o2, o == AnsiString(o.base_str), o == 1), lambda o: (o == AnsiStr(o2), o == AnsiStr(o.base_str), o == 1))
    elif name == 'base_str':
        if ai or bi or kk:
            return None
        bad = both(s, lambda o: o.base_str, lambda o: o.base_str)
    elif name in ('format_matching', 'unformat_matching'):
        if not a or bi:
            return None
        bad = both(s, mut(name, a, 'bold', count=kk), call(name, a, 'bold', count=kk))
    elif name == 'unformat_matching-all':
        if not a or bi:
            return None
        bad = both(s, mut('unformat_matching', a, count=kk), call('unformat_matching', a, count=kk))
    elif name == 'unformat_matching-none':
        if not a or bi:
            return None
        bad = both(s, mut('unformat_matching', a, 'red', None, count=kk), call('unformat_matching', a, 'red', None, count=kk))
    elif name == 'format_matching-two':
        if not a or bi:
            return None
        bad = both(s, mut('format_matching', a, 'bold', ['underline'], match_case=True, count=kk),
                   call('format_matching', a, 'bold', ['underline'], match_case=True, count=kk))
    elif name == 'apply_formatting_for_match':
        if not a or bi or kk:
            return None
        mo = re.search(re.escape(a), s.base_str)
        if mo is None:
            return None
        bad = both(s, mut(name, 'bold', mo), call(name, 'bold', mo))
    else:
        return None
    if bad:
        return bad + (name,)
    cover('method')
    return True


COVERED = set(NOARG_COPY + NOARG_QUERY + STR_ARG + SUB_ARGS + (
    'clear_formatting', 'simplify', 'center', 'ljust', 'rjust', 'zfill', 'replace', 'split', 'rsplit', 'splitlines', 'expandtabs',
    'encode', 'to_str', '__format__', '__iter__', '__add__', '__iadd__', 'join', '__eq__', 'base_str', 'format_matching',
    'unformat_matching', 'apply_formatting_for_match', 'apply_formatting', 'remove_formatting', 'clip', '__getitem__',
    'find_settings', 'ansi_settings_at', 'settings_at'))


def h_introspect(dummy: bool):
    """Every public name common to both classes has an argument generator above."""
    common = [n for n in dir(AnsiStr) if not n.startswith('_') and hasattr(AnsiString, n)]
    common += [n for n in ('__len__', '__contains__', '__format__', '__iter__', '__add__', '__iadd__', '__eq__', '__getitem__')
               if n in AnsiStr.__dict__ and n in AnsiString.__dict__]
    missing = [n for n in common if n not in COVERED]
    if missing:
        return ('methods-without-generator', missing)        # harness incomplete: reported, never a silent success
    cover('all-shared-methods-covered')
    return True


def h_ctor(src: int, ti: int, si: int, ri: int, k: int):
    """Constructor: source str / AnsiString / AnsiStr x settings none / one / two."""
    s = receiver(ti, si, ri, SETS)
    if s is None:
        return None
    sk = pick(src, 0, 2)
    kk = pick(k, 0, 3)
    if sk is None or kk is None:
        return None
    sets = ((), ('bold',), ('bold', 'underline'), (['bold', AnsiFormat.BG_BLUE],))[kk]
    if sk == 0:
        source = str(s)                      # an ANSI-coded str
        base = AnsiString(source)
    elif sk == 1:
        source = s
        base = s
    else:
        source = AnsiStr(s)
        base = s
    x = AnsiString(source, *sets)
    snap = (base.base_str, S(base), str(base))
    y = AnsiStr(source, *sets)
    bad = equiv(x, y)
    if bad:
        return ('constructor-differs', sk, kk, bad)
    # the same as applying the settings to a copy of the source
    e = base.copy()
    if sets:
        e.apply_formatting(sets)
    bad = equiv(e, y)
    if bad:
        return ('constructor-ignores-settings', sk, kk, bad)
    if (base.base_str, S(base), str(base)) != snap:
        return ('constructor-changed-source', sk, kk)
    if sk == 2 and (source.base_str, S(source), str.__str__(source)) != snap:
        return ('constructor-changed-ansistr-source', kk)
    if sk == 1:
        # the AnsiStr is a value of its own: changing the AnsiString it was built from does not change it
        ysnap = (y.base_str, S(y), str.__str__(y), y.to_str())
        s.apply_formatting('italic', 0, 1, topmost=False)
        s += 'q'
        s.upper(inplace=True)
        s.remove_formatting('red')
        if (y.base_str, S(y), str.__str__(y), y.to_str()) != ysnap or not payload_ok(y):
            return ('ansistr-follows-its-mutable-source', kk, ysnap, (y.base_str, S(y), str.__str__(y), y.to_str()))
    cover('ctor')
    return True


BOUNDS = {
    'quick': 'receivers: 4 texts x 2 settings lists (red; stacked conflicting + unknown verbatim; constructor forms: 4 lists) on 4 ranges (first char, whole, last char, inner); range methods with ALL integer bounds / None; index methods with ALL integers; '
             'all other shared methods (by introspection) with arguments from a 5-string palette and integers -1..3; constructor: 3 source kinds x 4 settings lists',
    'thorough': 'quick + range methods on the 4th text with the remaining receiver settings',
}
OUTSIDE = 'receivers and arguments outside the palettes (AnsiStr construction forces realisation of the rendering, so texts are enumerated)'
ASSUMPTIONS = ['AnsiStr.partition/rpartition may return a list where AnsiString returns a tuple ("list/tuple of AnsiStr")']
KINDS = 'O: range bounds, indices; E: receiver text/setting/range, method selector, palette arguments, small integers'


def obligations(tier):
    obs = [selftest_ob()]
    obs.append(Ob('introspect', h_introspect, {}, need=('all-shared-methods-covered',), budget=60, bounds='dir(AnsiStr) & dir(AnsiString)', kinds=KINDS))
    for m in range(5):
        for ti in (0, 1, 2):
            if ti == 2:
                obs.append(Ob('range/m%d/t2' % m, h_range, dict(m=m, ti=2, si=0, ri=0), need=('range-method',), budget=1500, bounds='empty text', kinds=KINDS))
                continue
            for si in range(len(SETS_M)):
                obs.append(Ob('range/m%d/t%d/s%d' % (m, ti, si), h_range, dict(m=m, ti=ti, si=si), need=('range-method',), budget=1500,
                              bounds='text %r, receiver settings %r' % (TEXTS[ti], SETS_M[si]), kinds=KINDS))
    for m in range(3):
        obs.append(Ob('index/m%d' % m, h_index, dict(m=m), need=('index-method',), budget=900, bounds='5 texts', kinds=KINDS))
    for m, nm in enumerate(SIMPLE_NAMES):
        f = dict(m=m)
        u = uses(nm)
        if 'a' not in u:
            f['ai'] = 0
        if 'b' not in u:
            f['bi'] = 0
        if 'k' not in u:
            f['k'] = 0
        obs.append(Ob('method/%s' % nm, h_simple, f, need=('method',), budget=900, bounds='shared method %s, 5 texts' % nm, kinds=KINDS))
    if tier != 'quick':
        for m in range(5):
            for si in (1, 3):
                obs.append(Ob('range/m%d/t3/s%d' % (m, si), h_range, dict(m=m, ti=3, si=si, allsets=True), need=('range-method',), budget=3000,
                              bounds='text %r, receiver settings %r' % (TEXTS[3], SETS[si]), kinds=KINDS))
    obs.append(Ob('ctor', h_ctor, {}, need=('ctor',), budget=900, bounds='3 sources x 4 settings lists x receivers', kinds=KINDS))
    return obs
