"""C08 -- value semantics: arguments and receivers not mutated, results not aliased."""
from engine.api import Ob, pick, choose, cover, selftest_ob
from ref import term
from ref.view import S, ranges, snapshot, same_table

from ansi_string import AnsiString, AnsiStr, AnsiFormat, AnsiSetting

LEVEL = 'model_checking'
SIG = ('red', 'bold')
TA, TB = 'a b', 'b a'


WIDE = {'on': False}


def operand(text, si, ri):
    s = AnsiString(text)
    st = choose(si, SIG + ('blue',) if WIDE['on'] else SIG)
    if st is None:
        return None
    rs = ranges(len(text))
    r = choose(ri, rs if WIDE['on'] else (rs[0], rs[len(text) - 1], rs[-1], rs[len(text)]))       # first char, whole, last char, inner
    if r is None:
        return None
    s.apply_formatting(st, r[0], r[1])
    return s


# name -> f(a, b) -> result value or list of result values (all results are checked for independence)
OPS = (
    ('copy', lambda a, b: a.copy()),
    ('ctor', lambda a, b: AnsiString(a)),
    ('ctor-settings', lambda a, b: AnsiString(a, 'underline')),
    ('to-ansistr-and-back', lambda a, b: AnsiString(AnsiStr(a))),
    ('add', lambda a, b: a + b),
    ('add-str', lambda a, b: a + 'zz'),
    ('add-ansistr', lambda a, b: a + AnsiStr(b)),
    ('join', lambda a, b: AnsiString.join(a, b)),
    ('join3', lambda a, b: AnsiString.join(a, b, a)),
    ('join1', lambda a, b: AnsiString.join(a)),
    ('join1-ansistr', lambda a, b: AnsiString(AnsiStr.join(a))),
    ('to_str-ansi-only', lambda a, b: (a.to_str(':bold'), format(a, ':underline'), '{::italic}'.format(a), a.to_str('>6:red'), [])[-1]),
    ('render-calls', lambda a, b: (str(a), repr(a), a.to_str(None, False, True, False), a.encode(), list(iter(b)), [])[-1]),
    ('slice', lambda a, b: a[1:]),
    ('slice-full', lambda a, b: a[:]),
    ('index', lambda a, b: a[0]),
    ('clip', lambda a, b: a.clip(0, 2)),
    ('iter', lambda a, b: list(iter(a))),
    ('capitalize', lambda a, b: a.capitalize()),
    ('upper', lambda a, b: a.upper()),
    ('lower', lambda a, b: a.lower()),
    ('casefold', lambda a, b: a.casefold()),
    ('swapcase', lambda a, b: a.swapcase()),
    ('title', lambda a, b: a.title()),
    ('center', lambda a, b: a.center(6, '.')),
    ('ljust', lambda a, b: a.ljust(5)),
    ('rjust', lambda a, b: a.rjust(5, '-')),
    ('zfill', lambda a, b: a.zfill(5)),
    ('center-noop', lambda a, b: a.center(2)),
    ('strip', lambda a, b: a.strip('a')),
    ('lstrip', lambda a, b: a.lstrip('a')),
    ('rstrip', lambda a, b: a.rstrip('b')),
    ('strip-noop', lambda a, b: a.strip('x')),
    ('removeprefix', lambda a, b: a.removeprefix('a')),
    ('removesuffix', lambda a, b: a.removesuffix('b')),
    ('removeprefix-noop', lambda a, b: a.removeprefix('x')),
    ('replace-str', lambda a, b: a.replace(' ', '__')),
    ('replace-obj', lambda a, b: a.replace(' ', b)),
    ('replace-obj-twice', lambda a, b: AnsiString.join(a, a).replace(' ', b)),
    ('replace-ansistr', lambda a, b: a.replace(' ', AnsiStr(b))),
    ('replace-nomatch', lambda a, b: a.replace('x', b)),
    ('expandtabs', lambda a, b: a.expandtabs(2)),
    ('partition', lambda a, b: list(a.partition(' '))),
    ('partition-absent', lambda a, b: list(a.partition('x'))),
    ('rpartition', lambda a, b: list(a.rpartition(' '))),
    ('split', lambda a, b: a.split(' ')),
    ('split-ws', lambda a, b: a.split()),
    ('rsplit', lambda a, b: a.rsplit(' ', 1)),
    ('splitlines', lambda a, b: a.splitlines()),
)

# in-place variants: (name, in-place call on x returning the method's return value, non-in-place form)
INPLACE = (
    ('capitalize', lambda x: x.capitalize(inplace=True), lambda x: x.capitalize()),
    ('casefold', lambda x: x.casefold(inplace=True), lambda x: x.casefold()),
    ('lower', lambda x: x.lower(inplace=True), lambda x: x.lower()),
    ('upper', lambda x: x.upper(inplace=True), lambda x: x.upper()),
    ('swapcase', lambda x: x.swapcase(inplace=True), lambda x: x.swapcase()),
    ('title', lambda x: x.title(inplace=True), lambda x: x.title()),
    ('center', lambda x: x.center(6, '.', inplace=True), lambda x: x.center(6, '.')),
    ('ljust', lambda x: x.ljust(5, inplace=True), lambda x: x.ljust(5)),
    ('rjust', lambda x: x.rjust(5, inplace=True), lambda x: x.rjust(5)),
    ('zfill', lambda x: x.zfill(5, inplace=True), lambda x: x.zfill(5)),
    ('strip', lambda x: x.strip('a', inplace=True), lambda x: x.strip('a')),
    ('lstrip', lambda x: x.lstrip('a', inplace=True), lambda x: x.lstrip('a')),
    ('rstrip', lambda x: x.rstrip('b', inplace=True), lambda x: x.rstrip('b')),
    ('strip-noop', lambda x: x.strip('x', inplace=True), lambda x: x.strip('x')),
    ('clip', lambda x: x.clip(1, 3, inplace=True), lambda x: x.clip(1, 3)),
    ('removeprefix', lambda x: x.removeprefix('a', inplace=True), lambda x: x.removeprefix('a')),
    ('removesuffix', lambda x: x.removesuffix('b', inplace=True), lambda x: x.removesuffix('b')),
    ('removeprefix-noop', lambda x: x.removeprefix('x', inplace=True), lambda x: x.removeprefix('x')),
    ('replace', lambda x: x.replace(' ', '__', inplace=True), lambda x: x.replace(' ', '__')),
    ('expandtabs', lambda x: x.expandtabs(2, inplace=True), lambda x: x.expandtabs(2)),
    ('iadd', lambda x: x.__iadd__('zz'), lambda x: x + 'zz'),
)

MUTS = 8


def mutate(x, m):
    n = len(x.base_str)
    if m == 0:
        x.apply_formatting('underline')
    elif m == 1:
        x.apply_formatting('underline', topmost=False)
    elif m == 2:
        x.apply_formatting('italic', 1)
    elif m == 3:
        x.remove_formatting()
    elif m == 4:
        x.remove_formatting(None, 0, 1)
    elif m == 5:
        x += AnsiString('z', 'red')
    elif m == 6:
        x.remove_formatting('red', 1)
    else:
        x.apply_formatting('blue', 0, 1, topmost=False)
        x.clip(0, n - 1 if n else 0, inplace=True)


def flat(res):
    if isinstance(res, (list, tuple)):
        out = []
        for r in res:
            out += flat(r)
        return out
    return [res]


def _one(f, name, a1, ar, b1, br, mm, dr):
    """One (mutation kind, direction) case on fresh operands."""
    a = operand(TA, a1, ar)
    b = operand(TB, b1, br)
    sa, sb = snapshot(a), snapshot(b)
    res = f(a, b)
    if snapshot(a) != sa:
        return ('receiver-mutated', name, sa, snapshot(a))
    if snapshot(b) != sb:
        return ('argument-mutated', name, sb, snapshot(b))
    parts = flat(res)
    for p in parts:
        if p is a or p is b:
            return ('result-is-operand', name)
    if name in ('copy', 'ctor', 'to-ansistr-and-back', 'slice-full'):
        if not (res == a) or str(res) != str(a):
            return ('copy-not-equal', name, str(res), str(a))
    if S(a)[len(TA) - 1] and S(b)[0] and S(a)[len(TA) - 1] == S(b)[0]:
        cover('equal-seam')
    if dr == 0:
        # mutate every result: the sources must not change
        for p in parts:
            mutate(p, mm)
        if snapshot(a) != sa:
            return ('receiver-changed-by-mutating-result', name, mm, sa, snapshot(a))
        if snapshot(b) != sb:
            return ('argument-changed-by-mutating-result', name, mm, sb, snapshot(b))
        cover('mutated-result')
    elif dr == 1:
        # mutate the receiver: the results must not change
        sr = [snapshot(p) for p in parts]
        mutate(a, mm)
        if [snapshot(p) for p in parts] != sr:
            return ('result-changed-by-mutating-receiver', name, mm)
        if snapshot(b) != sb:
            return ('argument-changed-by-mutating-receiver', name, mm)
        cover('mutated-receiver')
    else:
        sr = [snapshot(p) for p in parts]
        mutate(b, mm)
        if [snapshot(p) for p in parts] != sr:
            return ('result-changed-by-mutating-argument', name, mm)
        if snapshot(a) != sa:
            return ('receiver-changed-by-mutating-argument', name, mm)
        cover('mutated-argument')
    # two results of one call are independent of each other
    if len(parts) >= 2 and dr == 0:
        q = f(a, b)
        qp = flat(q)
        s1 = [snapshot(p) for p in qp[1:]]
        mutate(qp[0], mm)
        if [snapshot(p) for p in qp[1:]] != s1:
            return ('sibling-results-aliased', name, mm)
    return None


def h_op(op: int, a1: int, ar: int, b1: int, br: int, wide=False):
    WIDE['on'] = bool(wide)
    """Operand shapes are solver-enumerated; the 8 follow-up mutations x 3 directions are looped inside (fresh operands each)."""
    o = choose(op, OPS)
    if o is None:
        return None
    if operand(TA, a1, ar) is None:
        return None
    if operand(TB, b1, br) is None:
        return None
    name, f = o
    for mm in range(MUTS):
        for dr in range(3):
            bad = _one(f, name, a1, ar, b1, br, mm, dr)
            if bad:
                return bad + ((mm, dr),)
    return True


def h_inplace(op: int, a1: int, ar: int, m: int, wide=False):
    WIDE['on'] = bool(wide)
    o = choose(op, INPLACE)
    if o is None:
        return None
    a = operand(TA, a1, ar)
    if a is None:
        return None
    mm = pick(m, 0, MUTS - 1)
    if mm is None:
        return None
    name, fin, fout = o
    expect = fout(a)
    x = a.copy()
    r = fin(x)
    if r is not x:
        return ('inplace-does-not-return-self', name)
    if not (x == expect) or str(x) != str(expect) or x.base_str != expect.base_str or not same_table(S(x), S(expect)):
        return ('inplace-differs-from-copy-form', name, str(x), str(expect))
    # the in-place result does not alias the original it was copied from
    sa = snapshot(a)
    mutate(x, mm)
    if snapshot(a) != sa:
        return ('inplace-aliases-original', name, mm)
    cover('inplace')
    return True


def h_settings_arg(k: int, si: int, ri: int):
    """A settings list (also nested, also AnsiSetting objects) handed to the API is not modified and not aliased."""
    kk = pick(k, 0, 5)
    if kk is None:
        return None
    inner = ['bold', AnsiSetting('4')]
    obj = AnsiSetting('31')
    lst = [obj, inner, 'italic', 38, 5, 9]
    before = (list(lst), list(inner), str(obj))
    a = operand(TA, si, ri)
    if a is None:
        return None
    if kk == 0:
        x = AnsiString('ab', lst)
    elif kk == 1:
        x = AnsiStr('ab', lst)
    elif kk == 2:
        a.apply_formatting(lst, 0, 2)
        x = a
    elif kk == 3:
        a.remove_formatting(lst, 0, 2)
        x = a
    elif kk == 4:
        a.find_settings(lst)
        x = a
    else:
        a.format_matching('a', lst)
        a.unformat_matching('a', lst)
        x = a
    if (list(lst), list(inner), str(obj)) != before or lst[0] is not obj or lst[1] is not inner:
        return ('settings-list-modified', kk)
    # the applied setting objects are private copies: two values built from the same list are independent
    if kk in (0, 2):
        y = AnsiString('ab', lst)
        sy = snapshot(y)
        x.remove_formatting()
        if snapshot(y) != sy:
            return ('values-share-setting-state', kk)
    cover('settings-arg')
    return True


BOUNDS = {
    'quick': '%d operations (every non-in-place method, +, join, slicing, iteration, conversions, replace with str/AnsiString/AnsiStr replacement) on operands '
             '"a b" / "b a" with red|bold on 4 ranges each (incl. equal settings at the seam) x 8 follow-up mutations x 3 directions (mutate result / receiver / argument); '
             '%d in-place variants; settings-list arguments through 6 entry points' % (len(OPS), len(INPLACE)),
    'thorough': 'operands with red|bold|blue on all 6 canonical ranges (18 x 18 operand pairs per operation)',
}
OUTSIDE = 'operands outside the 8x8 shapes; mutation sequences longer than one step after the operation'
ASSUMPTIONS = []
KINDS = 'E: operation, operand shapes, mutation kind, direction'


def obligations(tier):
    obs = [selftest_ob()]
    w = tier != 'quick'
    for op in range(len(OPS)):
        obs.append(Ob('op/%s' % OPS[op][0], h_op, dict(op=op, wide=w), need=('mutated-result', 'mutated-receiver', 'mutated-argument'), budget=900 if not w else 3000,
                      bounds='operation %s%s' % (OPS[op][0], ', operands red|bold|blue on all 6 ranges' if w else ''), kinds=KINDS))
    obs.append(Ob('inplace', h_inplace, dict(wide=w), need=('inplace',), budget=900, bounds='%d in-place variants' % len(INPLACE), kinds=KINDS))
    obs.append(Ob('settings-arg', h_settings_arg, {}, need=('settings-arg',), budget=300, bounds='6 entry points', kinds=KINDS))
    return obs
