"""C19 -- control-sequence parser is lossless; cursor/erase/scroll helpers emit one sequence."""
from engine.api import Ob, pick, choose, cover, selftest_ob

import ansi_string as A
from ansi_string import ParsedAnsiControlSequenceString

LEVEL = 'model_checking'
ESC = '\x1b'

CONFIGS = ((True, None), (False, None), (True, 'm'), (True, 'mK'), (False, 'm'))


def rtok(s, allow_empty, acceptable):
    """R-tok: independent tokeniser.  Returns (text, {index: [(params, final)]})."""
    text = []
    seqs = {}
    i = 0
    n = len(s)
    while i < n:
        c = s[i]
        if c == ESC and i + 1 < n and s[i + 1] == '[':
            j = i + 2
            while j < n:
                o = ord(s[j])
                if 0x40 <= o <= 0x7E:
                    break
                j += 1
            if j < n:
                final = s[j]
                end = j + 1
                ok = acceptable is None or final in acceptable
            else:
                final = ''
                end = n
                ok = allow_empty and (acceptable is None or acceptable is not None and '' in acceptable)
            if ok:
                seqs.setdefault(len(text), []).append((s[i + 2:j], final))
            else:
                for k in range(i, end):
                    text.append(s[k])
            i = end
        else:
            text.append(c)
            i += 1
    return ''.join(text), seqs


def h_parse(s: str, n: int, cfg: int):
    if len(s) != n:
        return None
    c = choose(cfg, CONFIGS)
    if c is None:
        return None
    allow, acc = c
    p = ParsedAnsiControlSequenceString(s, allow, acc)
    text, seqs = rtok(s, allow, acc)
    if p.unformatted_str != text:
        return ('text-differs', s, p.unformatted_str, text)
    got = {k: [(v.sequence, v.terminator) for v in lst] for k, lst in p.sequences.items()}
    if got != seqs:
        return ('sequences-differ', s, got, seqs)
    if seqs:
        cover('has-sequence')
        for lst in seqs.values():
            if len(lst) > 1:
                cover('two-at-one-point')
            for prm, fin in lst:
                if fin == '':
                    cover('unterminated')
    elif ESC in s:
        cover('esc-kept')
    # re-inserting reproduces s
    if p.formatted_str != s:
        return ('formatted_str-not-lossless', s, p.formatted_str)
    if str(p) != s:
        return ('str-not-lossless', s, str(p))
    if repr(p) != s:
        return ('repr-not-formatted', s, repr(p))
    return True


HELPERS = (
    ('cursor_up_str', 'A'), ('cursor_down_str', 'B'), ('cursor_forward_str', 'C'), ('cursor_backward_str', 'D'),
    ('cursor_back_str', 'D'), ('cursor_next_line_str', 'E'), ('cursor_previous_line_str', 'F'),
    ('cursor_horizontal_absolute_str', 'G'), ('erase_in_display_str', 'J'), ('erase_in_line_str', 'K'),
    ('scroll_up_str', 'S'), ('scroll_down_str', 'T'),
)
VALUES = (0, 1, 2, 3, 9, 10, 99, 100, 255, 65535, -1, -10, 12345678901234567890)


def h_helper_parse(h: int, vi: int, wi: int):
    """E-values: the parser recognises exactly one sequence and leaves empty text."""
    v = choose(vi, VALUES)
    w = choose(wi, VALUES)
    if v is None or w is None:
        return None
    hh = pick(h, 0, len(HELPERS))
    if hh is None:
        return None
    if hh == len(HELPERS):
        name, final = 'cursor_position_str', 'H'
        out = A.cursor_position_str(v, w)
        params = '%d;%d' % (v, w)
    else:
        if wi != 0:
            return None
        name, final = HELPERS[hh]
        out = getattr(A, name)(v)
        params = '%d' % v
    p = ParsedAnsiControlSequenceString(out)
    if p.unformatted_str != '':
        return ('helper-leaves-text', name, v, p.unformatted_str)
    got = [(k, [(x.sequence, x.terminator) for x in lst]) for k, lst in p.sequences.items()]
    if got != [(0, [(params, final)])]:
        return ('helper-not-one-sequence', name, v, got)
    cover('helper-parsed')
    return True


def h_defaults(h: int):
    """Default argument n=1 for the helpers that have one."""
    names = ('cursor_up_str', 'cursor_down_str', 'cursor_forward_str', 'cursor_backward_str', 'cursor_back_str',
             'cursor_next_line_str', 'cursor_previous_line_str')
    finals = 'ABCDDEF'
    i = pick(h, 0, len(names) - 1)
    if i is None:
        return None
    if getattr(A, names[i])() != ESC + '[1' + finals[i]:
        return ('helper-default', names[i])
    cover('helper')
    return True


BOUNDS = {
    'quick': 'all strings (any Unicode code points) of length 0..8 x 5 constructor settings; helpers: all integers for the '
             'emitted text (direct SMT lemma over the AST terms, z3+cvc5), 13 boundary values (incl. negative, > 2^64) for recognition by the parser',
    'thorough': 'all strings of length 0..9 x 5 constructor settings; helpers as in quick',
}
OUTSIDE = 'strings longer than the bound; acceptable-terminator sets other than None, "m", "mK"'
ASSUMPTIONS = ['"recognised" sequences are found by leftmost scanning; a rejected sequence stays in the text as a whole and scanning resumes after it']
KINDS = 'C: input string (any characters, bounded length); E: constructor setting, helper selector, boundary values; O: helper integer arguments'


def obligations(tier):
    obs = [selftest_ob()]
    maxn = 8 if tier == 'quick' else 9
    for n in range(0, maxn + 1):
        if n >= 5:
            for cfg in range(len(CONFIGS)):
                obs.append(Ob('parse/n%d/cfg%d' % (n, cfg), h_parse, dict(n=n, cfg=cfg),
                              need=('has-sequence',) + (('two-at-one-point',) if n >= 6 else ()),
                              budget=600 if tier == 'quick' else 3000, bounds='length %d, setting %r' % (n, CONFIGS[cfg]), kinds=KINDS))
        else:
            need = ('has-sequence',) if n >= 2 else ()
            obs.append(Ob('parse/n%d' % n, h_parse, dict(n=n), need=need, budget=600, bounds='length %d' % n, kinds=KINDS))
    from engine.lemmas import lemma_helpers
    obs.append(Ob('helper/lemma-text', lemma_helpers, {}, budget=120,
                  bounds='12 helpers + alias; ALL integers; result == ESC [ decimal args final (z3 + cvc5, terms from the AST)',
                  kinds='O: helper arguments (unbounded Int)'))
    obs.append(Ob('helper/parse', h_helper_parse, {}, need=('helper-parsed',), budget=300, bounds='13 helpers x 13 values', kinds=KINDS))
    obs.append(Ob('helper/defaults', h_defaults, {}, need=('helper',), budget=60, bounds='7 defaults', kinds=KINDS))
    return obs
