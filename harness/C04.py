"""C04 -- slicing returns exactly the selected characters and styles, closed at the end."""
from typing import Optional

from engine.api import Ob, pick, choose, cover, selftest_ob
from ref import term
from ref.view import S, TEXT, SIGMA4, build2, norm_slice, ranges, same_table, first_diff

from ansi_string import AnsiString, AnsiStr

LEVEL = 'model_checking'


def closed(piece, m):
    """A slice is complete in itself: appended text keeps only its own style."""
    z = piece + 'z'
    if z.base_str != piece.base_str + 'z':
        return ('closure-text', z.base_str)
    if [str(x) for x in z.ansi_settings_at(m)] != []:
        return ('style-open-past-slice-end', piece.base_str, S(z))
    zb = piece + AnsiString('z', 'blue')
    if [str(x) for x in zb.ansi_settings_at(m)] != ['34']:
        return ('appended-style-polluted', piece.base_str, S(zb))
    cells, final, _ = term.interpret(str(z))
    if len(cells) != m + 1 or cells[m][1] != {}:
        return ('appended-text-rendered-styled', str(z))
    return None


def h_slice(n: int, k: int, s1: int, r1: int, s2: int, r2: int, t2: bool, c: Optional[int], d: Optional[int]):
    s = build2(n, k, s1, r1, s2, r2, t2)
    if s is None:
        return None
    t = TEXT[:n]
    tab = S(s, n)
    lo, hi = norm_slice(c, d, n)
    lo = pick(lo, 0, n)
    hi = pick(hi, 0, n)
    piece = s[c:d]
    if piece.base_str != t[lo:hi]:
        return ('slice-text', c, d, piece.base_str, t[lo:hi])
    m = hi - lo
    got = S(piece, m)
    for j in range(m):
        if not term.same(got[j], tab[lo + j]):
            return ('slice-settings', c, d, j, got[j], tab[lo + j])
    if m == 0:
        cover('empty-slice')
    else:
        cover('nonempty-slice')
        if any(tab[hi - 1]):
            cover('style-at-end')
        if lo > 0 and tab[lo - 1] != tab[lo]:
            cover('cut-at-change-point')
    bad = closed(piece, m)
    if bad:
        return bad
    # source unchanged
    if S(s, n) != tab or s.base_str != t:
        return ('source-changed', S(s, n))
    # clip equals the slice
    cl = s.clip(c, d)
    if cl.base_str != piece.base_str or not same_table(S(cl, m), got) or not (cl == piece):
        return ('clip-differs', c, d, S(cl, m), got)
    acl = AnsiStr(s).clip(c, d)
    if acl.base_str != piece.base_str or not same_table(S(acl, m), got) or str(acl) != str(piece):
        return ('ansistr-clip-differs', c, d, acl.base_str, S(acl, m), got)
    return True


def h_index(n: int, k: int, s1: int, r1: int, s2: int, r2: int, t2: bool, i: int):
    s = build2(n, k, s1, r1, s2, r2, t2)
    if s is None:
        return None
    t = TEXT[:n]
    tab = S(s, n)
    try:
        ch = s[i]
    except IndexError:
        if -n <= i < n:
            return ('indexerror-for-valid-index', i)
        cover('index-error')
        return True
    if not (-n <= i < n):
        return ('no-indexerror', i, ch.base_str)
    p = i if i >= 0 else i + n
    p = pick(p, 0, n - 1)
    if ch.base_str != t[p]:
        return ('index-text', i, ch.base_str)
    if not term.same(S(ch, 1)[0], tab[p]):
        return ('index-settings', i, S(ch, 1)[0], tab[p])
    one = s[p:p + 1]
    if not (ch == one):
        return ('index-not-one-char-slice', i)
    cover('negative-index' if i < 0 else 'index')
    bad = closed(ch, 1)
    if bad:
        return bad
    return True


def h_iter(n: int, k: int, s1: int, r1: int, s2: int, r2: int, t2: bool):
    s = build2(n, k, s1, r1, s2, r2, t2)
    if s is None:
        return None
    items = list(iter(s))
    if len(items) != n:
        return ('iter-length', len(items))
    tab = S(s, n)
    for j, ch in enumerate(items):
        if ch.base_str != TEXT[j] or not term.same(S(ch, 1)[0], tab[j]) or not (ch == s[j]):
            return ('iter-item', j, ch.base_str, S(ch, 1))
    cover('iterated')
    return True


def h_step(n: int, st: int):
    """Steps other than 1 are rejected with ValueError; step 1 / None accepted."""
    s = AnsiString(TEXT[:n], 'red')
    try:
        r = s[0:n:st]
    except ValueError:
        if st == 1:
            return ('step-1-rejected',)
        cover('step-rejected')
        return True
    if st != 1:
        return ('step-accepted', st, r.base_str)
    cover('step-1')
    return True


BOUNDS = {
    'quick': 'receivers: 1 apply step n<=3, 2 apply steps n=2 over (red, blue, bold, no_bold_faint), all canonical ranges, topmost both; '
             'slice bounds / integer index: ALL integers (bounds also None)',
    'thorough': '2 apply steps n<=3, 1 step n<=4, 3 steps n=2; otherwise as quick',
}
OUTSIDE = 'receivers needing more builder steps; text content (concrete letters; slicing does not inspect characters)'
ASSUMPTIONS = []
KINDS = 'O: start, stop, index (all integers / None); E: n, builder selectors, ranges, topmost'


def obligations(tier):
    obs = [selftest_ob()]
    need = ('empty-slice', 'nonempty-slice', 'style-at-end', 'cut-at-change-point')
    z = dict(s2=0, r2=0, t2=False)
    for n in (1, 2, 3) if tier == 'quick' else (1, 2, 3, 4):
        obs.append(Ob('slice/b1/n%d' % n, h_slice, dict(n=n, k=1, **z), need=need[:3] + (need[3:] if n > 1 else ()),
                      budget=900, bounds='n=%d, 1 apply step' % n, kinds=KINDS))
        obs.append(Ob('index/b1/n%d' % n, h_index, dict(n=n, k=1, **z), need=('index', 'negative-index', 'index-error'),
                      budget=300, bounds='n=%d, 1 apply step' % n, kinds=KINDS))
        obs.append(Ob('iter/b1/n%d' % n, h_iter, dict(n=n, k=1, **z), need=('iterated',), budget=300,
                      bounds='n=%d' % n, kinds=KINDS))
    for n in ((2,) if tier == 'quick' else (2, 3)):
        for s1 in range(4):
            for r1 in range(len(ranges(n))):
                obs.append(Ob('slice/b2/n%d/s%d/r%d' % (n, s1, r1), h_slice, dict(n=n, k=2, s1=s1, r1=r1), need=need[:2],
                              budget=600 if tier == 'quick' else 3000,
                              bounds='n=%d, 2 apply steps, first #%d on range #%d' % (n, s1, r1), kinds=KINDS))
        obs.append(Ob('index/b2/n%d' % n, h_index, dict(n=n, k=2), need=('index', 'negative-index', 'index-error'),
                      budget=900, bounds='n=%d, 2 apply steps' % n, kinds=KINDS))
        obs.append(Ob('iter/b2/n%d' % n, h_iter, dict(n=n, k=2), need=('iterated',), budget=600,
                      bounds='n=%d, 2 apply steps' % n, kinds=KINDS))
    if tier == 'quick':
        for s1 in (0, 2):
            obs.append(Ob('slice/b2nt/n3/s%d' % s1, h_slice, dict(n=3, k=2, s1=s1, r1=2, t2=False), need=('nonempty-slice',), budget=900,
                          bounds='n=3, first setting on the whole text, second step not topmost', kinds=KINDS))
    obs.append(Ob('step', h_step, dict(n=3), need=('step-rejected', 'step-1'), budget=60, bounds='all integer steps', kinds=KINDS))
    return obs
