"""C14 -- all documented spellings of a setting give the same codes; bad ones rejected."""
from engine.api import Ob, pick, choose, cover, selftest_ob
from ref import term

from ansi_string import AnsiString, AnsiStr, AnsiFormat, AnsiSetting

LEVEL = 'model_checking'


def obs_of(arg, cls=0):
    """(list of setting texts, joined text, rendering) of 'a' formatted with arg."""
    s = AnsiString('a', arg) if cls == 0 else AnsiStr('a', arg)
    return [str(x) for x in s.ansi_settings_at(0)], s.settings_at(0), str(s)


MEMBERS = list(AnsiFormat.__members__.items())


def h_member(lo: int, k: int, form: int):
    j = pick(k, 0, 49)
    if j is None:
        return None
    f = pick(form, 0, 9)
    if f is None:
        return None
    idx = lo + j
    if idx >= len(MEMBERS):
        return None
    name, member = MEMBERS[idx]
    ref = obs_of(member)
    codes = [int(c) for x in member.ansi_settings for c in str(x).split(';')]
    if [str(x) for x in member.ansi_settings] != ref[0]:
        return ('member-settings-differ', name, ref[0])
    # the member's settings follow the reference terminal table (one group each)
    for x in ref[0]:
        if not term.single_group(x):
            return ('member-not-a-group', name, x)
    if f == 0:
        got = obs_of(name.lower())
    elif f == 1:
        got = obs_of(name)
    elif f == 2:
        got = obs_of(name.title())
    elif f == 3:
        got = obs_of(name.lower().replace('_', ' '))
    elif f == 4:
        got = obs_of(name.replace('_', '-'))
    elif f == 5:
        got = obs_of(list(codes))
    elif f == 6:
        got = obs_of(';'.join(str(c) for c in codes))
    elif f == 7:
        got = obs_of('[' + ';'.join(str(c) for c in codes))
        # verbatim: one setting with the whole text; the joined text and the rendering agree
        if got[1:] != ref[1:]:
            return ('verbatim-differs', name, got, ref)
        cover('verbatim')
        return True
    elif f == 8:
        got = obs_of(tuple(codes)) if len(codes) > 1 else obs_of(codes[0])
    else:
        got = obs_of([member], 1)
    if got != ref:
        return ('spelling-differs', name, f, got, ref)
    if len(ref[0]) > 1:
        cover('two-setting-member')
    cover('member')
    return True


def h_case_mask(ni: int, mask: int):
    """Letter case of a name as a bit mask."""
    name = choose(ni, ('red', 'bold', 'bg_red', 'faint', 'hide', 'fg_tan'))
    if name is None:
        return None
    m = pick(mask, 0, (1 << len(name)) - 1)
    if m is None:
        return None
    sp = ''.join(c.upper() if (m >> i) & 1 else c for i, c in enumerate(name))
    if obs_of(sp) != obs_of(AnsiFormat[name.upper()]):
        return ('case-variant-differs', sp)
    cover('case')
    return True


BSET = (0, 1, 127, 254, 255)
RGB_HELPERS = (('rgb', '38', None), ('fg_rgb', '38', None), ('bg_rgb', '48', None), ('ul_rgb', '58', '4'), ('dul_rgb', '58', '21'))
C256_HELPERS = (('color256', '38', None), ('fg_color256', '38', None), ('bg_color256', '48', None), ('ul_color256', '58', '4'),
                ('dul_color256', '58', '21'), ('colour256', '38', None), ('fg_colour256', '38', None), ('bg_colour256', '48', None),
                ('ul_colour256', '58', '4'), ('dul_colour256', '58', '21'))


def clamp_class(v):
    """clamped value; in-range values are restricted to a boundary set (None otherwise)."""
    if v < 0:
        return 0
    if v > 255:
        return 255
    for b in BSET:
        if v == b:
            return b
    return None


def h_rgb(h: int, r: int, g: int, b: int):
    hp = choose(h, RGB_HELPERS)
    if hp is None:
        return None
    cr = clamp_class(r)
    if cr is None:
        return None
    cg = clamp_class(g)
    if cg is None:
        return None
    cb = clamp_class(b)
    if cb is None:
        return None
    name, intro, ul = hp
    res = getattr(AnsiFormat, name)(r, g, b)
    got = [str(x) for x in res]
    exp = ([ul] if ul else []) + ['%s;2;%d;%d;%d' % (intro, cr, cg, cb)]
    if got != exp:
        return ('rgb-helper', name, r, g, b, got, exp)
    if obs_of(res)[0] != exp:
        return ('rgb-helper-applied', name, obs_of(res)[0], exp)
    if r < 0 or r > 255 or g < 0 or g > 255 or b < 0 or b > 255:
        cover('clamped')
    cover('rgb')
    return True


V24 = (0, 1, 255, 256, 0xFFFF, 0x10000, 0x123456, 0xFFFFFF, 0x1000000, 0x1FFFFFF)


def h_rgb24(h: int, vi: int):
    hp = choose(h, RGB_HELPERS)
    v = choose(vi, V24)
    if hp is None or v is None:
        return None
    name, intro, ul = hp
    got = [str(x) for x in getattr(AnsiFormat, name)(v)]
    exp = ([ul] if ul else []) + ['%s;2;%d;%d;%d' % (intro, (v >> 16) & 255, (v >> 8) & 255, v & 255)]
    if got != exp:
        return ('rgb24', name, v, got, exp)
    cover('rgb24')
    return True


def h_c256(h: int, vi: int):
    hp = choose(h, C256_HELPERS)
    v = choose(vi, BSET)
    if hp is None or v is None:
        return None
    name, intro, ul = hp
    got = [str(x) for x in getattr(AnsiFormat, name)(v)]
    exp = ([ul] if ul else []) + ['%s;5;%d' % (intro, v)]
    if got != exp:
        return ('color256', name, v, got, exp)
    # string form of the same
    for sp in ('%s(%d)' % (name, v), '%s(0x%x)' % (name, v), '%s( %d )' % (name, v), '%s([%d])' % (name, v)):
        if obs_of(sp)[0] != exp:
            return ('color256-string', sp, obs_of(sp)[0], exp)
    cover('c256')
    return True


SVALS = (0, 1, 9, 10, 99, 100, 127, 255, 256, 300)
SFORMS = ('{p}rgb({r},{g},{b})', '{p}rgb(0x{r:x},0x{g:x},0x{b:x})', '{p}rgb( {r} , {g} , {b} )', '{p}rgb([{r},{g},{b}])',
          '{p}rgb(({r},{g},{b}))', '{p}rgb({r}, 0x{g:X}, {b})')
PREFIX = (('', '38', None), ('fg_', '38', None), ('bg_', '48', None), ('ul_', '58', '4'), ('dul_', '58', '21'))


def h_rgb_string(f: int, p: int, ri: int, gi: int, bi: int):
    fm = choose(f, SFORMS)
    if fm is None:
        return None
    pf = choose(p, PREFIX)
    if pf is None:
        return None
    r = choose(ri, SVALS)
    if r is None:
        return None
    g = choose(gi, SVALS)
    if g is None:
        return None
    b = choose(bi, SVALS)
    if b is None:
        return None
    sp = fm.format(p=pf[0], r=r, g=g, b=b)
    exp = ([pf[2]] if pf[2] else []) + ['%s;2;%d;%d;%d' % (pf[1], min(r, 255), min(g, 255), min(b, 255))]
    got = obs_of(sp)[0]
    if got != exp:
        return ('rgb-string', sp, got, exp)
    # several directives in one string
    got2 = obs_of('bold;' + sp + ';4')[0]
    if got2 != ['1'] + exp + ['4']:
        return ('rgb-string-in-list', sp, got2)
    cover('rgb-string')
    return True


def h_rgb24_string(p: int, vi: int, hexa: bool):
    pf = choose(p, PREFIX)
    v = choose(vi, V24)
    if pf is None or v is None:
        return None
    sp = ('%srgb(0x%x)' if hexa else '%srgb(%d)') % (pf[0], v)
    exp = ([pf[2]] if pf[2] else []) + ['%s;2;%d;%d;%d' % (pf[1], (v >> 16) & 255, (v >> 8) & 255, v & 255)]
    got = obs_of(sp)[0]
    if got != exp:
        return ('rgb24-string', sp, got, exp)
    cover('rgb24-string')
    return True


NEST = (
    (['bold', ('red', ['underline'])], ['1', '31', '4']),
    ((('bold',),), ['1']),
    ([[['bold', 'red']], 'underline'], ['1', '31', '4']),
    ([AnsiFormat.BOLD, 'red', 4, '[38;5;9', AnsiSetting('3')], ['1', '31', '4', '38;5;9', '3']),
    ([AnsiFormat.rgb(1, 2, 3), AnsiFormat.UL_RED], ['38;2;1;2;3', '4', '58;5;9']),
    (['bold;red', ['4;38;5;9'], (21,)], ['1', '31', '4', '38;5;9', '21']),
    ([], []), ([[]], []), ([(), [[], ()]], []),
    (['', ';', 'bold'], ['1']),
    ([38, 5, 9, 'bold', 48, 2, 1, 2, 3], ['38;5;9', '1', '48;2;1;2;3']),
    ([1, [31, 4]], ['1', '31', '4']),
    ((AnsiFormat.BOLD, (AnsiFormat.RED, [AnsiFormat.UNDERLINE])), ['1', '31', '4']),
    ('bold;red;underline', ['1', '31', '4']),
    ('Bold;fg red;BG-BLUE', ['1', '31', '44']),
)


def h_nest(i: int, cls: int):
    c = choose(i, NEST)
    if c is None or cls not in (0, 1):
        return None
    arg, exp = c
    got = obs_of(arg, cls)[0]
    if got != exp:
        return ('nesting', repr(arg), got, exp)
    # the same through apply_formatting and several positional arguments
    s = AnsiString('a')
    s.apply_formatting(arg)
    if [str(x) for x in s.ansi_settings_at(0)] != exp:
        return ('nesting-apply', repr(arg))
    if isinstance(arg, (list, tuple)) and arg:
        s2 = AnsiString('a', *arg)
        if [str(x) for x in s2.ansi_settings_at(0)] != exp:
            return ('nesting-positional', repr(arg), [str(x) for x in s2.ansi_settings_at(0)])
    cover('nest')
    return True


ALPHA = (0, 1, 22, 5, 2, 38, 48, 58, 39, 31, 214, 77)


def h_int_runs(L: int, a1: int, a2: int, a3: int, a4: int, f: int, pos: int):
    """Integer runs: list of ints == ';' string of the same codes == tuple; effective style per R-term."""
    codes = []
    for a in (a1, a2, a3, a4)[:L]:
        c = choose(a, ALPHA)
        if c is None:
            return None
        codes.append(c)
    if pos >= 0:
        v = pick(f, 0, 256)
        if v is None:
            return None
        p = pick(pos, 0, L)
        if p is None:
            return None
        codes.insert(p, v)
    if not codes:
        return None
    a = obs_of(list(codes))
    b = obs_of(';'.join(str(c) for c in codes))
    c = obs_of(tuple(codes))
    d = obs_of([str(x) for x in codes])
    if a != b or a != c or a != d:
        return ('int-forms-differ', codes, a, b, c, d)
    # every integer appears, in order
    toks = [t for x in a[0] for t in x.split(';')]
    if toks != [str(x) for x in codes]:
        return ('int-tokens-lost', codes, a[0])
    # complete groups are kept intact
    try:
        want = term.apply_codes({}, codes)
        got = term.red(a[0])
    except term.Ambiguous:
        cover('ambiguous')
        return True
    if got != want and not any(x in term.EXT for x in codes[-4:]):
        return ('int-style-differs', codes, a[0], got, want)
    cover('ints')
    return True


RED_FORMS = ('red', 'RED', 'fg red', 'fg-red', 'Fg_Red', 31, '31', '[31', AnsiFormat.RED, AnsiFormat.FG_RED, [AnsiFormat.FG_RED], ('red',), [['red']],
             AnsiSetting('31'), [31], 'rgb(255,0,0)', AnsiFormat.rgb(255, 0, 0), [38, 2, 255, 0, 0], '38;2;255;0;0')


def h_spell_history(f: int, g: int, cls: int):
    """Every spelling gives the same per-character settings through a nested editing history as well."""
    fm = choose(f, RED_FORMS)
    if fm is None:
        return None
    gm = choose(g, ('blue', AnsiFormat.BLUE, 34, ['blue']))
    if gm is None or cls not in (0, 1):
        return None
    one = [str(x) for x in AnsiString('a', fm).ansi_settings_at(0)]     # the text this spelling reports (checked against the codes elsewhere)
    if len(one) != 1 or one[0] not in ('31', '38;2;255;0;0'):
        return ('spelling-of-red', repr(fm), one)
    red = one[0]
    s = AnsiString('abcd') if cls == 0 else AnsiStr('abcd')
    if cls == 0:
        s.apply_formatting(fm, 0, 4)
        s.apply_formatting(gm, 1, 4)
        s.apply_formatting(fm, 2, 3)
    else:
        s = s.apply_formatting(fm, 0, 4).apply_formatting(gm, 1, 4).apply_formatting(fm, 2, 3)
    got = [[str(x) for x in s.ansi_settings_at(i)] for i in range(4)]
    exp = [[red], [red, '34'], [red, '34', red], [red, '34']]
    if got != exp:
        return ('spelling-history-differs', repr(fm), got, exp)
    cover('history')
    return True


BAD_NAMES = ('redd', 'bold_', 'fg', 'nosuch', 'rgb', 'rgb()', 'color256', 'bold red', 'reD!', '1.5', '0x10', 'bg_', '--', 'bold,red')
BAD_RGB = ('rgb(1,2)', 'rgb(1,2,3,4)', 'rgb(-1,2,3)', 'rgb(1;2;3)', 'rgb(x)', 'rgb(1,2,3', 'rgb 1,2,3', 'xx_rgb(1,2,3)', 'rgb(0x,1,2)',
           'color256()', 'color256(1,2)', 'colr256(1)', 'color256(-1)', 'ul-rgb(1,2,3)', 'rgb(1.0,2,3)', 'xcolor256(5)', 'bold color256(5)',
           'bgcolor256(5)', 'xrgb(1,2,3)', 'fg_bg_color256(5)', 'color256(5)x')
NEG = (-1, -2, -255, -256, -2 ** 31, -10 ** 20)
BAD_TYPES = (1.5, b'red', {'a': 1}, object, 2 + 3j, {1, 2})


def h_errors(kind: int, i: int, v: int):
    k = pick(kind, 0, 4)
    if k is None:
        return None
    if k != 3 and v != 0:
        return None
    if k == 0:
        arg = choose(i, BAD_NAMES)
        exc = ValueError
    elif k == 1:
        arg = choose(i, BAD_RGB)
        exc = ValueError
    elif k == 2:
        arg = choose(i, BAD_TYPES)
        exc = TypeError
        if i < 0 or i >= len(BAD_TYPES):
            return None
    elif k == 3:
        if v != 0:
            return None
        arg = choose(i, NEG)              # the error message formats the value: a symbolic int would be realised value by value
        exc = ValueError
        if arg is None:
            return None
        cover('negative-int')
    else:
        if i != 0:
            return None
        arg = ['bold']
        arg.append(arg)
        exc = ValueError
    if k in (0, 1) and arg is None:
        return None
    for wrap in (lambda a: a, lambda a: [a], lambda a: ('bold', [a])):
        s = AnsiString('ab', 'red')
        before = (s.settings_at(0), str(s))
        for call in (lambda: AnsiString('a', wrap(arg)), lambda: s.apply_formatting(wrap(arg)), lambda: AnsiStr('a', wrap(arg)),
                     lambda: s.remove_formatting(wrap(arg))):
            try:
                call()
            except exc:
                pass
            except Exception as e:
                return ('wrong-error-type', repr(arg), type(e).__name__, exc.__name__)
            else:
                return ('no-error', repr(arg)[:60], exc.__name__)
        if (s.settings_at(0), str(s)) != before:
            return ('changed-after-error', repr(arg)[:60])
    cover('rejected')
    return True


BOUNDS = {
    'quick': 'every AnsiFormat member (by introspection) x 10 spellings; letter-case masks of 6 names; rgb helpers: ALL integers per component '
             '(classes <0, {0,1,127,254,255}, >255); 24-bit values at 10 boundaries + bit-vector lemma for all 64-bit values; color256 helpers on 5 values '
             'x 4 string forms; rgb strings: 6 forms x 5 prefixes x 10^3 boundary values; 15 nestings/mixtures; integer runs of <=3 alphabet codes, and <=1 alphabet code + one free code '
             '0..256 at any position; 14 bad names, 15 bad rgb/color strings, 6 unsupported types, 6 negative integers (incl. -2^31, -10^20), self-containing list',
    'thorough': 'integer runs of <=4 alphabet codes; 2 alphabet codes + free code',
}
OUTSIDE = 'in-range rgb components other than the 5 boundary values in the symbolic helper check (the lemma and the string forms cover more values)'
ASSUMPTIONS = ['verbatim spelling of a two-setting member is one setting with the joined text: joined text and rendering are compared']
KINDS = 'O: rgb components; E: member index, spelling form, boundary values, nesting index, alphabet selectors, free code'


def obligations(tier):
    q = tier == 'quick'
    obs = [selftest_ob()]
    from engine.lemmas import lemma_rgb_split
    obs.append(Ob('lemma/rgb-split', lemma_rgb_split, {}, budget=120,
                  bounds='all 64-bit v: components in 0..255; 0 <= v < 2^24: v = 65536 r + 256 g + b (QF_BV; z3 + cvc5; terms from the AST)',
                  kinds='O: v (64-bit)'))
    for lo in range(0, len(MEMBERS), 50):
        obs.append(Ob('member/%d' % lo, h_member, dict(lo=lo), need=('member', 'verbatim'), budget=900,
                      bounds='members %d..%d x 10 spellings' % (lo, min(lo + 49, len(MEMBERS) - 1)), kinds=KINDS))
    obs.append(Ob('case-mask', h_case_mask, {}, need=('case',), budget=300, bounds='6 names x all case masks', kinds=KINDS))
    for h in range(len(RGB_HELPERS)):
        obs.append(Ob('rgb/%s' % RGB_HELPERS[h][0], h_rgb, dict(h=h), need=('rgb', 'clamped'), budget=600,
                      bounds='all integer triples (7 classes per component)', kinds=KINDS))
    obs.append(Ob('rgb24', h_rgb24, {}, need=('rgb24',), budget=300, bounds='5 helpers x 10 values', kinds=KINDS))
    obs.append(Ob('color256', h_c256, {}, need=('c256',), budget=300, bounds='10 helpers x 5 values x 4 string forms', kinds=KINDS))
    for f in range(len(SFORMS)):
        obs.append(Ob('rgb-string/f%d' % f, h_rgb_string, dict(f=f), need=('rgb-string',), budget=900,
                      bounds='form %r x 5 prefixes x 10^3 values' % SFORMS[f], kinds=KINDS))
    obs.append(Ob('rgb24-string', h_rgb24_string, {}, need=('rgb24-string',), budget=300, bounds='5 prefixes x 10 values x dec/hex', kinds=KINDS))
    obs.append(Ob('spell-history', h_spell_history, {}, need=('history',), budget=600, bounds='19 spellings of red x 4 of blue x nested history x 2 classes', kinds=KINDS))
    obs.append(Ob('nest', h_nest, {}, need=('nest',), budget=300, bounds='15 nestings x 2 classes', kinds=KINDS))
    maxL = 3 if q else 4
    for L in range(1, maxL + 1):
        fixed = dict(L=L, f=0, pos=-1)
        for j, nm in enumerate(('a1', 'a2', 'a3', 'a4')):
            if j >= L:
                fixed[nm] = 0
        if L >= 3:
            for a1 in range(len(ALPHA)):
                obs.append(Ob('ints/L%d/a%d' % (L, a1), h_int_runs, dict(fixed, a1=a1), need=('ints',), budget=900, bounds='length %d' % L, kinds=KINDS))
        else:
            obs.append(Ob('ints/L%d' % L, h_int_runs, fixed, need=('ints',), budget=600, bounds='length %d' % L, kinds=KINDS))
    for L in range(0, 2 if q else 3):
        fixed = dict(L=L)
        for j, nm in enumerate(('a1', 'a2', 'a3', 'a4')):
            if j >= L:
                fixed[nm] = 0
        if L == 2:
            for a1 in range(len(ALPHA)):
                obs.append(Ob('ints-free/L2/a%d' % a1, h_int_runs, dict(fixed, a1=a1), need=('ints',), budget=900,
                              bounds='2 alphabet codes + free code at any position', kinds=KINDS))
        else:
            obs.append(Ob('ints-free/L%d' % L, h_int_runs, fixed, need=('ints',), budget=900, bounds='%d alphabet codes + free code' % L, kinds=KINDS))
    obs.append(Ob('errors', h_errors, {}, need=('rejected', 'negative-int'), budget=600, bounds='bad names / strings / types / negatives / self-containing list', kinds=KINDS))
    return obs
