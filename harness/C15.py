"""C15 -- valid/parsable flags are exact; valid formatting renders well-formed escapes."""
from engine.api import Ob, pick, choose, cover, selftest_ob
from ref import term
from ref.view import S, TEXT, ranges

from ansi_string import AnsiString, AnsiStr, AnsiFormat, AnsiSetting

LEVEL = 'model_checking'
ESC = '\x1b'


def valid_text(t):
    for c in t:
        if 0x40 <= ord(c) <= 0x7E:
            return False
    return True


def strict(t):
    """R-gram, strict form: one complete known group other than reset; ASCII digits, no blanks."""
    return term.single_group(t)


def lenient(t):
    """R-gram, lenient form: fields as int() accepts them after strip()."""
    vals = []
    for f in t.split(';'):
        f = f.strip()
        try:
            vals.append(int(f))
        except ValueError:
            return False
    for v in vals:
        if v < 0 or v > 255:
            return False
    return term.single_group(';'.join(str(v) for v in vals))


def h_valid(t: str, n: int):
    if len(t) != n:
        return None
    a = AnsiSetting(t)
    exp = valid_text(t)
    if a.valid != exp:
        return ('valid-wrong', t, a.valid, exp)
    if a.valid != exp:
        return ('flag-not-stable', t)
    if not exp and a.parsable:
        return ('parsable-but-invalid', t)
    if str(a) != t or not (a == t) or not (a == AnsiSetting(t)):
        return ('setting-text', t, str(a))
    cover('valid' if exp else 'invalid')
    return True


ALPHA_P = '0123456789; +-m'


def h_parsable_small(n: int, c1: int, c2: int, c3: int, c4: int, c5: int, alpha=ALPHA_P):
    t = ''
    for c in (c1, c2, c3, c4, c5)[:n]:
        ch = choose(c, alpha)
        if ch is None:
            return None
        t += ch
    a = AnsiSetting(t)
    got = a.parsable
    if strict(t):
        cover('strict-member')
        if not got:
            return ('parsable-false-on-member', t)
    elif not lenient(t) or not valid_text(t):
        cover('non-member')
        if got:
            return ('parsable-true-outside', t)
    else:
        cover('grey-zone')
    if a.parsable != got or a.valid != valid_text(t):
        return ('flag-not-stable', t)
    return True


STRUCT = ('{i};5;{a}', '{i};2;{a};{b};{c}', '{i};5', '{i};2;{a};{b}', '{i};5;{a};{b}', '{i};2;{a};{b};{c};{a}', '{i}', '{i};{a}',
          '{i};3;{a}', '{a};{i};5;{b}', '{i};5;{a};', ';{i};5;{a}', '{i};;5;{a}', '{i};5; {a}')
VALS = (0, 1, 255, 256, 38)


def h_parsable_struct(f: int, i: int, a: int, b: int, c: int):
    fm = choose(f, STRUCT)
    ii = choose(i, (38, 48, 58, 39, 1))
    va, vb, vc = choose(a, VALS), choose(b, VALS), choose(c, VALS)
    if None in (fm, ii, va, vb, vc):
        return None
    t = fm.format(i=ii, a=va, b=vb, c=vc)
    s = AnsiSetting(t)
    got = s.parsable
    if strict(t):
        cover('strict-member')
        if not got:
            return ('parsable-false-on-member', t)
    elif not lenient(t):
        cover('non-member')
        if got:
            return ('parsable-true-outside', t)
    else:
        cover('grey-zone')
    if not s.valid:
        return ('valid-false', t)
    return True


SIG = (('red', '31'), ('[38;5;9', '38;5;9'), ('[99', '99'), ('[1m', '1m'), ('[1;31', '1;31'), ('bold', '1'), ('[ 4', ' 4'), ('[38;5', '38;5'),
       ('[[31', '[31'), ('[~', '~'))


def h_conjunction(n: int, s1: int, r1: int, s2: int, r2: int, cls: int):
    s = AnsiString(TEXT[:n])
    for sel, rng in ((s1, r1), (s2, r2)):
        st = choose(sel, SIG)
        r = choose(rng, ranges(n))
        if st is None or r is None:
            return None
        s.apply_formatting(st[0], r[0], r[1])
    if cls == 1:
        s = AnsiStr(s)
    elif cls != 0:
        return None
    used = [x for row in S(s, n) for x in row]
    given = [SIG[pick(s1, 0, len(SIG) - 1)][1], SIG[pick(s2, 0, len(SIG) - 1)][1]]
    if sorted(set(used)) != sorted(set(given)):
        return ('verbatim-text-altered', given, used)
    v = all(valid_text(x) for x in used)
    if s.is_formatting_valid() != v:
        return ('is_formatting_valid-wrong', used, s.is_formatting_valid())
    got = s.is_formatting_parsable()
    if all(strict(x) for x in used):
        cover('all-parsable')
        if not got:
            return ('is_formatting_parsable-false', used)
    elif any((not lenient(x)) or (not valid_text(x)) for x in used):
        cover('some-unparsable')
        if got:
            return ('is_formatting_parsable-true', used)
    if s.is_optimizable() != got:
        return ('is_optimizable-differs', used)
    cover('valid' if v else 'invalid')
    return True


def h_members(lo: int, k: int, form: int):
    """Settings given as AnsiFormat members, their names, known non-reset codes: always valid and parsable."""
    members = list(AnsiFormat.__members__.items())
    j = pick(k, 0, 49)
    f = pick(form, 0, 2)
    if j is None or f is None:
        return None
    idx = lo + j
    if idx >= len(members):
        return None
    name, member = members[idx]
    arg = member if f == 0 else name if f == 1 else name.lower().replace('_', ' ')
    s = AnsiString('a', arg)
    if not s.is_formatting_valid() or not s.is_formatting_parsable():
        return ('member-not-parsable', name, S(s))
    for x in S(s)[0]:
        if not strict(x):
            return ('member-setting-not-a-group', name, x)
    cover('member')
    return True


INT_LISTS = ([1, 38, 5, 100], [38, 5, 100, 1, 4], [4, 48, 2, 1, 2, 3, 9], (58, 5, 7, 21), '1;38;5;100', [31, 1], ['1', '38', '5', '100'], [[1], [38, 5, 100]])


def h_int_lists(k: int, cls: int):
    """Known codes given as several ints / a list / a ';' string (colour group not first): always valid and parsable."""
    arg = choose(k, INT_LISTS)
    if arg is None or cls not in (0, 1):
        return None
    s = AnsiString('a', *arg) if (cls == 0 and isinstance(arg, list) and all(isinstance(x, int) for x in arg)) else (AnsiString('a', arg) if cls == 0 else AnsiStr('a', arg))
    if not s.is_formatting_valid() or not s.is_formatting_parsable():
        return ('int-list-not-parsable', repr(arg), S(s))
    for x in S(s)[0]:
        if not strict(x):
            return ('int-list-setting-not-a-group', repr(arg), x)
    cover('int-list')
    return True


def h_codes(c: int):
    v = pick(c, 0, 110)
    if v is None:
        return None
    if v not in term.KNOWN or v == 0 or v in term.EXT:
        return None
    s = AnsiString('a', v)
    if not s.is_formatting_valid() or not s.is_formatting_parsable() or S(s)[0] != [str(v)]:
        return ('known-code-not-parsable', v, S(s))
    cover('code')
    return True


HELPERS = ('rgb', 'fg_rgb', 'bg_rgb', 'ul_rgb', 'dul_rgb')
HELPERS1 = ('color256', 'fg_color256', 'bg_color256', 'ul_color256', 'dul_color256', 'colour256', 'fg_colour256',
            'bg_colour256', 'ul_colour256', 'dul_colour256')
BV = (0, 1, 127, 255)


def h_helpers(h: int, a: int, b: int, c: int):
    va, vb, vc = choose(a, BV), choose(b, BV), choose(c, BV)
    hh = pick(h, 0, len(HELPERS) + len(HELPERS1) - 1)
    if None in (va, vb, vc, hh):
        return None
    if hh < len(HELPERS):
        res = getattr(AnsiFormat, HELPERS[hh])(va, vb, vc)
    else:
        if b != 0 or c != 0:
            return None
        res = getattr(AnsiFormat, HELPERS1[hh - len(HELPERS)])(va)
    s = AnsiString('a', res)
    if not s.is_formatting_valid() or not s.is_formatting_parsable():
        return ('helper-not-parsable', hh, S(s))
    for x in S(s)[0]:
        if not strict(x):
            return ('helper-setting-not-a-group', hh, x)
    cover('helper')
    return True


V_PAL = ('1', '2', '22', '38;5;9', ' 1', '99', '1;31', ';', '4;', '\x1b', '38;5', '\x1b1', '0', '?25', '1:2', '+1', '1 ')


def _strip_check(s, v, n, parsable_like, opts=(True, False)):
    if not s.is_formatting_valid():
        return ('valid-setting-reported-invalid', v)
    for o in opts:
        for rs in (False, True):
            for re_ in (False, True):
                out = s.to_str(None, o, rs, re_)
                toks = term.tokens(out)
                text = ''.join(x for kind, x in toks if kind == 'chr')
                if text != TEXT[:n]:
                    return ('strip-leaves-garbage', v, (o, rs, re_), out, text)
                # (a parsable verbatim setting may legitimately be optimised away when another setting shadows it)
                if (not o or not parsable_like) and not any(kind == 'sgr' and v in x for kind, x in toks):
                    return ('verbatim-setting-not-intact', v, (o, rs, re_), out)
    return None


def h_strip(v: str, vn: int, n: int, s1: int, r1: int, r2: int, top: bool):
    """Valid formatting + ESC-free text: removing every ESC [ params m leaves base_str; the verbatim setting appears
    intact.  v: any valid characters; the 4 optimize=False renderings (optimize=True calls parsable -> int() on a symbolic
    string, which the engine cannot finish; h_strip_pal covers all 8 renderings for palette settings)."""
    if len(v) != vn:
        return None
    for c in v:
        if 0x40 <= ord(c) <= 0x7E:
            return None
    s = AnsiString(TEXT[:n])
    st = choose(s1, (('red', '31'), ('bold', '1'), ('[38;5;9', '38;5;9')))
    ra = choose(r1, ranges(n))
    rb = choose(r2, ranges(n))
    if None in (st, ra, rb):
        return None
    s.apply_formatting(st[0], ra[0], ra[1])
    s.apply_formatting('[' + v, rb[0], rb[1], topmost=bool(top))
    bad = _strip_check(s, v, n, False, opts=(False,))      # optimize=True needs parsable -> int() on a symbolic string
    if bad:
        return bad
    if ESC in v:
        cover('esc-in-setting')
    if ';' in v:
        cover('separator-in-setting')
    cover('stripped')
    return True


def h_strip_pal(vi: int, n: int, s1: int, r1: int, r2: int, top: bool):
    v = choose(vi, V_PAL)
    s = AnsiString(TEXT[:n])
    st = choose(s1, (('red', '31'), ('bold', '1'), ('[38;5;9', '38;5;9')))
    ra = choose(r1, ranges(n))
    rb = choose(r2, ranges(n))
    if None in (v, st, ra, rb):
        return None
    s.apply_formatting(st[0], ra[0], ra[1])
    s.apply_formatting('[' + v, rb[0], rb[1], topmost=bool(top))
    bad = _strip_check(s, v, n, lenient(v))
    if bad:
        return bad
    cover('stripped')
    return True


BOUNDS = {
    'quick': 'valid: ALL strings (any Unicode) of length 1..9; parsable: all strings of length 1..4 over "0-9 ; blank + - m" and 14 structured '
             'forms x 5 introducers x values {0,1,255,256,38}; conjunction over values with 2 settings from an 8-setting alphabet (valid/invalid/'
             'unknown/multi-group/blank/incomplete); all AnsiFormat members x 3 spellings; all known codes; helpers on {0,1,127,255}; stripping '
             'with a symbolic valid verbatim setting (any characters) of length 1..3 over the optimize=False renderings and 17 palette settings over all 8 renderings',
    'thorough': 'valid up to length 12, parsable up to length 5 over the alphabet, verbatim setting up to length 3',
}
OUTSIDE = 'setting texts longer than the bound; blanks, signs and non-ASCII digits are a grey zone for parsable (either value accepted)'
ASSUMPTIONS = ['"parameter bytes" = any character outside 0x40-0x7E (the library\'s reading)']
KINDS = 'C: setting text (any Unicode, bounded); E: alphabet indices, structured forms, member index, boundary values, builder selectors'


def obligations(tier):
    q = tier == 'quick'
    obs = [selftest_ob()]
    for n in range(1, 10 if q else 13):
        obs.append(Ob('valid/n%d' % n, h_valid, dict(n=n), need=('valid', 'invalid'), budget=900, bounds='all strings of length %d' % n, kinds=KINDS))
    for n in range(1, 5 if q else 6):
        f = dict(n=n)
        for j, nm in enumerate(('c1', 'c2', 'c3', 'c4', 'c5')):
            if j >= n:
                f[nm] = 0
        if n >= 4:
            for c1 in range(len(ALPHA_P)):
                obs.append(Ob('parsable/n%d/c%d' % (n, c1), h_parsable_small, dict(f, c1=c1), need=('non-member',), budget=900 if q else 3000,
                              bounds='length %d over %r' % (n, ALPHA_P), kinds=KINDS))
        else:
            obs.append(Ob('parsable/n%d' % n, h_parsable_small, f, need=('strict-member', 'non-member') + (('grey-zone',) if n > 1 else ()), budget=900,
                          bounds='length %d over %r' % (n, ALPHA_P), kinds=KINDS))
    for f in range(len(STRUCT)):
        obs.append(Ob('parsable/struct%d' % f, h_parsable_struct, dict(f=f), need=(), budget=600, bounds='form %r' % STRUCT[f], kinds=KINDS))
    for cls in (0, 1):
        obs.append(Ob('conjunction/n2/c%d' % cls, h_conjunction, dict(n=2, cls=cls), need=('all-parsable', 'some-unparsable', 'valid', 'invalid'),
                      budget=900, bounds='n=2, two settings from a 10-setting alphabet', kinds=KINDS))
    n_members = len(AnsiFormat.__members__)
    for lo in range(0, n_members, 50):
        obs.append(Ob('members/%d' % lo, h_members, dict(lo=lo), need=('member',), budget=900,
                      bounds='members %d..%d x 3 spellings' % (lo, min(lo + 49, n_members - 1)), kinds=KINDS))
    obs.append(Ob('int-lists', h_int_lists, {}, need=('int-list',), budget=300, bounds='8 multi-code spellings x 2 classes', kinds=KINDS))
    obs.append(Ob('codes', h_codes, {}, need=('code',), budget=300, bounds='all known non-reset single codes', kinds=KINDS))
    obs.append(Ob('helpers', h_helpers, {}, need=('helper',), budget=600, bounds='15 helpers on {0,1,127,255}', kinds=KINDS))
    for vn in (1, 2, 3) if q else (1, 2, 3, 4):
        obs.append(Ob('strip/v%d' % vn, h_strip, dict(vn=vn, n=2, s1=0, r1=1), need=('stripped', 'esc-in-setting'), budget=600, per_path=60,
                      bounds='verbatim setting: any valid characters, length %d, n=2, the 4 optimize=False renderings' % vn, kinds=KINDS))
    obs.append(Ob('strip/palette', h_strip_pal, dict(n=2), need=('stripped',), budget=900,
                  bounds='17 digit-bearing / special verbatim settings x 3 settings x all range pairs x topmost, 8 renderings', kinds=KINDS))
    return obs
