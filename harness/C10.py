"""C10 -- str-like methods agree with Python's str on the base text."""
from typing import Optional

from engine.api import Ob, pick, choose, cover, selftest_ob

from ansi_string import AnsiString, AnsiStr

LEVEL = 'model_checking'
ESC = '\x1b'
WS = ' \t\n\r\v\f'

# 16-character palette covering the Unicode classes the predicates / case mappings distinguish
PAL = ('a', 'Z', '1', ' ', '\t', '\n', '\xdf', 'ǅ', 'İ', '\xe9', '_', '-', '٣', '\xb2', 'Ⅷ', '\xa0')
LINES = ('\n', '\r', 'x', '\x0b', '\x0c', '\x1c', '\x85', ' ', ' ')

QUERY = ('count', 'find', 'rfind', 'index', 'rindex', 'endswith')
PRED = ('isalnum', 'isalpha', 'isascii', 'isdecimal', 'isdigit', 'isidentifier', 'islower', 'isnumeric',
        'isprintable', 'isspace', 'istitle', 'isupper')
CASE = ('capitalize', 'casefold', 'lower', 'upper', 'swapcase', 'title')


def call(f):
    try:
        return ('ok', f())
    except Exception as e:
        return ('exc', type(e).__name__)


def mk(t, cls):
    return AnsiString(t) if cls == 0 else AnsiStr(t)


def base(x):
    if isinstance(x, (list, tuple)):
        return [base(y) for y in x]
    if isinstance(x, (AnsiString, AnsiStr)):
        return x.base_str
    return x


def pal_text(n, p1, p2, p3, pal=PAL):
    out = ''
    for p in (p1, p2, p3)[:n]:
        c = choose(p, pal)
        if c is None:
            return None
        out += c
    return out


def h_query(t: str, sub: str, a: Optional[int], b: Optional[int], n: int, m: int):
    if len(t) != n or len(sub) > 2 or ESC in t:
        return None
    name = choose(m, QUERY)
    if name is None:
        return None
    s = AnsiString(t)
    x = call(lambda: getattr(s, name)(sub, a, b))
    y = call(lambda: getattr(t, name)(sub, a, b))
    if x != y:
        return ('query-differs', name, t, sub, a, b, x, y)
    if y[0] == 'exc':
        cover('raises')
    elif y[1] not in (0, -1, False):
        cover('found')
    return True


def h_len_in(t: str, sub: str, n: int):
    if len(t) != n or len(sub) > 2 or ESC in t or ESC in sub:
        return None
    s = AnsiString(t)
    if len(s) != len(t):
        return ('len-differs', t, len(s))
    if (sub in s) != (sub in t):
        return ('in-differs', t, sub)
    if (AnsiString(sub) in s) != (sub in t):
        return ('in-ansistring-differs', t, sub)
    if sub in t:
        cover('contained')
    else:
        cover('not-contained')
    return True


def h_pred(n: int, p1: int, p2: int, p3: int, cls: int):
    t = pal_text(n, p1, p2, p3)
    if t is None or cls not in (0, 1):
        return None
    s = mk(t, cls)
    for name in PRED:
        if getattr(s, name)() != getattr(t, name)():
            return ('predicate-differs', name, t)
    for name in CASE:
        r = getattr(s, name)()
        e = getattr(t, name)()
        if r.base_str != e:
            return ('case-text-differs', name, t, r.base_str, e)
        if len(e) != len(t):
            cover('length-changing-case')
    if len(s) != len(t):
        return ('len-differs', t)
    cover('palette')
    return True


def h_strip(t: str, chars: Optional[str], n: int, m: int):
    if len(t) != n or ESC in t:
        return None
    if chars is not None and len(chars) > 2:
        return None
    name = choose(m, ('strip', 'lstrip', 'rstrip'))
    if name is None:
        return None
    s = AnsiString(t)
    r = getattr(s, name)(chars).base_str
    e = getattr(t, name)(WS if chars is None else chars)
    if r != e:
        return ('strip-differs', name, t, chars, r, e)
    if chars is None:
        cover('default-set')
    if e != t:
        cover('stripped')
    if e == '' and t != '':
        cover('stripped-all')
    return True


def h_affix(t: str, x: str, n: int, m: int):
    if len(t) != n or len(x) > 2 or ESC in t:
        return None
    name = choose(m, ('removeprefix', 'removesuffix'))
    if name is None:
        return None
    r = getattr(AnsiString(t), name)(x).base_str
    e = getattr(t, name)(x)
    if r != e:
        return ('affix-differs', name, t, x, r, e)
    if e != t:
        cover('removed')
    if x == '':
        cover('empty-affix')
    return True


def h_replace(t: str, old: str, new: str, cnt: int, n: int):
    if len(t) != n or len(old) > 2 or len(new) > 2 or ESC in t or ESC in new:
        return None
    r = AnsiString(t).replace(old, new, cnt).base_str
    e = t.replace(old, new, cnt)
    if r != e:
        return ('replace-differs', t, old, new, cnt, r, e)
    if e != t:
        cover('replaced')
    if old == '':
        cover('empty-old')
    if cnt == 0:
        cover('count-0')
    return True


def h_split(t: str, sep: Optional[str], k: int, n: int, m: int):
    if len(t) != n or ESC in t:
        return None
    if sep is not None and (len(sep) > 2 or sep == ''):
        return None                      # an empty separator is outside the claim
    name = choose(m, ('split', 'rsplit'))
    k = pick(k, -2, n + 1)               # CrossHair realises maxsplit: enumerated, not abstracted
    if name is None or k is None:
        return None
    if n == 0:
        t = ''
        if sep is not None:
            sep = choose(pick(len(sep), 1, 2) - 1, ('a', 'ab'))    # concrete: symbolic sep on a concrete '' is an engine artefact
    r = base(getattr(AnsiString(t), name)(sep, k))
    e = getattr(t, name)(sep, k)
    if r != e:
        return ('split-differs', name, t, sep, k, r, e)
    if len(e) > 1:
        cover('split-happened')
    if sep is None:
        cover('whitespace-split')
    return True


def h_partition(t: str, sep: str, n: int, m: int):
    if len(t) != n or ESC in t or sep == '' or len(sep) > 2:
        return None
    name = choose(m, ('partition', 'rpartition'))
    if name is None:
        return None
    r = base(getattr(AnsiString(t), name)(sep))
    e = list(getattr(t, name)(sep))
    if name == 'rpartition' and sep not in t:
        e = [t, '', '']                  # documented deviation
        cover('rpartition-absent')
    if list(r) != e:
        return ('partition-differs', name, t, sep, r, e)
    if sep in t:
        cover('partitioned')
    return True


def h_splitlines(n: int, p1: int, p2: int, p3: int, keep: bool, cls: int):
    t = pal_text(n, p1, p2, p3, LINES)
    if t is None or cls not in (0, 1):
        return None
    r = base(mk(t, cls).splitlines(bool(keep)))
    e = t.splitlines(bool(keep))
    if r != e:
        return ('splitlines-differs', t, keep, r, e)
    if len(e) > 1:
        cover('lines')
    return True


def h_pad(t: str, fill: str, w: int, n: int, m: int):
    if len(t) != n or ESC in t or len(fill) != 1 or fill == ESC:
        return None
    width = pick(w, -1, n + 4)
    name = choose(m, ('ljust', 'rjust', 'center', 'zfill'))
    if width is None or name is None:
        return None
    s = AnsiString(t)
    pad = width - n if width > n else 0
    if name == 'ljust':
        r, e = s.ljust(width, fill).base_str, t.ljust(width, fill)
    elif name == 'rjust':
        r, e = s.rjust(width, fill).base_str, t.rjust(width, fill)
    elif name == 'center':
        r = s.center(width, fill).base_str
        left = pad // 2                  # format()'s '^': the extra fill character goes to the right
        e = fill * left + t + fill * (pad - left)
    else:
        r, e = s.zfill(width).base_str, t.rjust(width, '0')
    if r != e:
        return ('pad-differs', name, t, fill, width, r, e)
    if pad:
        cover('padded')
        if pad % 2:
            cover('odd-padding')
    return True


def h_expandtabs(n: int, p1: int, p2: int, p3: int, ts: int, cls: int):
    t = pal_text(n, p1, p2, p3, ('\t', 'a', ' '))
    size = pick(ts, 0, 3)
    if t is None or size is None or cls not in (0, 1):
        return None
    r = mk(t, cls).expandtabs(size).base_str
    e = t.replace('\t', ' ' * size)
    if r != e:
        return ('expandtabs-differs', t, size, r, e)
    if '\t' in t:
        cover('tab')
    return True


# AnsiStr (its str payload forces realisation): texts and arguments from palettes
A_TEXTS = ('', 'a', 'ab', 'aa', 'aba', ' a ', 'a b', 'abab', '\ta', 'xAx', 'a\nb', 'aaa')
A_ARGS = ('', 'a', 'b', 'ab', 'aa', ' ', 'x')


def h_ansistr(ti: int, ai: int, bi: int, k: int):
    t = choose(ti, A_TEXTS)
    a = choose(ai, A_ARGS)
    b = choose(bi, A_ARGS)
    kk = pick(k, -2, 3)
    if None in (t, a, b, kk):
        return None
    s = AnsiStr(t)
    st = kk if kk != 3 else None
    checks = [
        ('count', lambda: s.count(a, st), lambda: t.count(a, st)),
        ('find', lambda: s.find(a, st), lambda: t.find(a, st)),
        ('rfind', lambda: s.rfind(a, None, st), lambda: t.rfind(a, None, st)),
        ('index', lambda: s.index(a, st), lambda: t.index(a, st)),
        ('rindex', lambda: s.rindex(a), lambda: t.rindex(a)),
        ('endswith', lambda: s.endswith(a, st), lambda: t.endswith(a, st)),
        ('in', lambda: a in s, lambda: a in t),
        ('len', lambda: len(s), lambda: len(t)),
        ('strip', lambda: s.strip(a or None).base_str, lambda: t.strip(a or WS)),
        ('lstrip', lambda: s.lstrip(a or None).base_str, lambda: t.lstrip(a or WS)),
        ('rstrip', lambda: s.rstrip(a or None).base_str, lambda: t.rstrip(a or WS)),
        ('removeprefix', lambda: s.removeprefix(a).base_str, lambda: t.removeprefix(a)),
        ('removesuffix', lambda: s.removesuffix(a).base_str, lambda: t.removesuffix(a)),
        ('replace', lambda: s.replace(a, b, kk).base_str, lambda: t.replace(a, b, kk)),
        ('ljust', lambda: s.ljust(kk + 3, b or '.').base_str, lambda: t.ljust(kk + 3, (b or '.')[0]) if len(b or '.') == 1 else None),
        ('zfill', lambda: s.zfill(kk + 3).base_str, lambda: t.rjust(kk + 3, '0')),
    ]
    if a:
        checks += [
            ('split', lambda: base(s.split(a, kk)), lambda: t.split(a, kk)),
            ('rsplit', lambda: base(s.rsplit(a, kk)), lambda: t.rsplit(a, kk)),
            ('partition', lambda: base(s.partition(a)), lambda: list(t.partition(a))),
            ('rpartition', lambda: base(s.rpartition(a)), lambda: list(t.rpartition(a)) if a in t else [t, '', '']),
        ]
    else:
        checks += [('split-ws', lambda: base(s.split(None, kk)), lambda: t.split(None, kk))]
    for name, f, g in checks:
        if name == 'ljust' and len(b or '.') != 1:
            continue
        x, y = call(f), call(g)
        if x != y:
            return ('ansistr-differs', name, t, a, b, kk, x, y)
    cover('ansistr')
    return True


BOUNDS = {
    'quick': 'AnsiString: base text = any string (all Unicode code points, no ESC) of length <=5, arguments any strings of '
             'length <=2, integer arguments (start/end/count) ALL integers / None, maxsplit -2..n+1; predicates + case mappings: texts of <=2 characters '
             'from a 16-character class palette; widths -1..n+4 with any fill character; AnsiStr: 12 texts x 7x7 arguments x 6 integers',
    'thorough': 'texts up to length 6, palette texts of 3 characters',
}
OUTSIDE = ('longer texts/arguments; empty separators (excluded by the statement); Unicode classes beyond the palette for predicates and case '
           'mappings (CPython C code realises the characters); widths beyond n+4')
ASSUMPTIONS = ['CrossHair models of str methods are trusted only through the per-path shadow replay on plain CPython']
KINDS = 'C: base text and string arguments (any Unicode, bounded length); O: start/end/count/maxsplit; E: method selector, palette indices, widths'


def obligations(tier):
    q = tier == 'quick'
    obs = [selftest_ob()]
    for m in range(len(QUERY)):
        for n in (0, 1, 2, 3, 4, 5) if q else (0, 1, 2, 3, 4, 5, 6):
            obs.append(Ob('query/%s/n%d' % (QUERY[m], n), h_query, dict(n=n, m=m), need=('found',) if n else (), budget=900,
                          per_path=40, bounds='text length %d, sub <=2, start/end all integers/None' % n, kinds=KINDS))
    for n in (0, 1, 2, 3):
        obs.append(Ob('len-in/n%d' % n, h_len_in, dict(n=n), need=('contained',), budget=600, bounds='length %d' % n, kinds=KINDS))
    for cls in (0, 1):
        z = dict(cls=cls)
        obs.append(Ob('pred/n1/c%d' % cls, h_pred, dict(n=1, p2=0, p3=0, **z), need=('palette', 'length-changing-case'), budget=300,
                      bounds='1 palette char', kinds=KINDS))
        obs.append(Ob('pred/n2/c%d' % cls, h_pred, dict(n=2, p3=0, **z), need=('palette',), budget=600, bounds='2 palette chars', kinds=KINDS))
        obs.append(Ob('pred/n0/c%d' % cls, h_pred, dict(n=0, p1=0, p2=0, p3=0, **z), need=('palette',), budget=60, bounds='empty text', kinds=KINDS))
        if not q:
            for p1 in range(len(PAL)):
                obs.append(Ob('pred/n3/c%d/p%d' % (cls, p1), h_pred, dict(n=3, p1=p1, **z), need=('palette',), budget=900,
                              bounds='3 palette chars', kinds=KINDS))
        for n in (1, 2, 3):
            obs.append(Ob('splitlines/n%d/c%d' % (n, cls), h_splitlines, dict(n=n, **z, **({'p3': 0} if n < 3 else {}), **({'p2': 0} if n < 2 else {})),
                          need=('lines',) if n > 1 else (), budget=600, bounds='%d chars from the line-break palette' % n, kinds=KINDS))
            obs.append(Ob('expandtabs/n%d/c%d' % (n, cls), h_expandtabs, dict(n=n, **z, **({'p3': 0} if n < 3 else {}), **({'p2': 0} if n < 2 else {})),
                          need=('tab',), budget=300, bounds='%d chars over tab/a/space, tabsize 0..3' % n, kinds=KINDS))
    for m in range(3):
        for n in (0, 1, 2, 3, 4, 5) if q else (0, 1, 2, 3, 4, 5, 6):
            obs.append(Ob('strip/m%d/n%d' % (m, n), h_strip, dict(n=n, m=m), need=('default-set',) + (('stripped',) if n else ()), budget=900,
                          bounds='length %d, chars None or <=2' % n, kinds=KINDS))
    for m in range(2):
        for n in (0, 1, 2, 3, 4, 5) if q else (0, 1, 2, 3, 4, 5, 6):
            obs.append(Ob('affix/m%d/n%d' % (m, n), h_affix, dict(n=n, m=m), need=('empty-affix',) + (('removed',) if n else ()), budget=600,
                          bounds='length %d, affix <=2' % n, kinds=KINDS))
    for n in (0, 1, 2, 3, 4, 5) if q else (0, 1, 2, 3, 4, 5, 6):
        obs.append(Ob('replace/n%d' % n, h_replace, dict(n=n), need=('empty-old', 'count-0') + (('replaced',) if n else ()), budget=1200,
                      per_path=40, bounds='length %d, old/new <=2, count all integers' % n, kinds=KINDS))
    for m in range(2):
        for n in (0, 1, 2, 3, 4, 5) if q else (0, 1, 2, 3, 4, 5, 6):
            obs.append(Ob('split/m%d/n%d' % (m, n), h_split, dict(n=n, m=m), need=('whitespace-split',) + (('split-happened',) if n > 1 else ()),
                          budget=1200, per_path=40, bounds='length %d, sep None or 1..2 chars, maxsplit -2..n+1' % n, kinds=KINDS))
            obs.append(Ob('partition/m%d/n%d' % (m, n), h_partition, dict(n=n, m=m), need=('partitioned',) if n else (), budget=600,
                          bounds='length %d, sep 1..2 chars' % n, kinds=KINDS))
    for m in range(4):
        for n in (0, 1, 2):
            obs.append(Ob('pad/m%d/n%d' % (m, n), h_pad, dict(n=n, m=m), need=('padded', 'odd-padding'), budget=600,
                          bounds='length %d, any fill char, width -1..n+4' % n, kinds=KINDS))
    for ti in range(len(A_TEXTS)):
        obs.append(Ob('ansistr/t%d' % ti, h_ansistr, dict(ti=ti), need=('ansistr',), budget=900,
                      bounds='AnsiStr(%r) x 7x7 arguments x 6 integers x 21 methods' % A_TEXTS[ti], kinds=KINDS))
    return obs
