"""Direct SMT lemmas whose terms are extracted from the repository's AST on
every run (DESIGN 2.6).  Each query is discharged by z3 (5.1.0, python API)
and cvc5 (1.4.0, python API) independently; they must agree.  `sat` is
replayed against the real function before it is reported as a violation.

  helpers   cursor_*/erase_*/scroll_* return ESC [ decimal(n) final  (strings + LIA, all integers)
  rgb_split _AnsiControlFn.rgb single-argument form: 24-bit split       (QF_BV, 64-bit)
  center    floor(fp64(num)/2.0) == num div 2 for 0 <= num < 2^53       (QF_BVFP)
"""
import ast
import os
import re
import time

REPO = os.environ.get('VERIF_REPO', '/repo')
SRC = os.path.join(REPO, 'src', 'ansi_string')


# ------------------------------------------------------------------ solvers
def _z3(smt, timeout_s):
    import z3
    s = z3.Solver()
    s.set('timeout', int(timeout_s * 1000))
    t = time.time()
    try:
        s.from_string(smt)
        r = str(s.check())
        model = None
        if r == 'sat':
            m = s.model()
            model = {}
            for d in m.decls():
                if d.arity() == 0:
                    v = m[d]
                    try:
                        model[d.name()] = v.as_signed_long() if z3.is_bv(v) else v.as_long()
                    except Exception:
                        model[d.name()] = str(v)
    except Exception as e:          # parse error etc: inconclusive
        return 'error:' + str(e)[:200], time.time() - t, None
    return r, time.time() - t, model


def _cvc5(smt, timeout_s):
    import cvc5
    t = time.time()
    model = None
    try:
        slv = cvc5.Solver()
        slv.setOption('strings-exp', 'true')
        slv.setOption('produce-models', 'true')
        slv.setOption('tlimit-per', str(int(timeout_s * 1000)))
        names = re.findall(r'\(declare-const (\w+) Int\)', smt)
        p = cvc5.InputParser(slv)
        p.setStringInput(cvc5.InputLanguage.SMT_LIB_2_6, smt + '\n(check-sat)\n', 'lemma')
        sm = p.getSymbolManager()
        out = None
        while True:
            c = p.nextCommand()
            if c.isNull():
                break
            r = c.invoke(slv, sm)
            if 'check-sat' in str(c):
                out = str(r).strip()
        if out == 'sat' and names:
            p2 = cvc5.InputParser(slv, sm)
            p2.setStringInput(cvc5.InputLanguage.SMT_LIB_2_6, '(get-value (%s))' % ' '.join(names), 'gv')
            c = p2.nextCommand()
            txt = str(c.invoke(slv, sm))
            model = {}
            for nm, val in re.findall(r'\((\w+) (\(- \d+\)|\d+)\)', txt):
                model[nm] = -int(val[3:-1]) if val.startswith('(') else int(val)
    except Exception as e:
        return 'error:' + str(e)[:200], time.time() - t, None
    return out, time.time() - t, model


def smt_check(smt, timeout_s=60):
    """Returns dict(z3=..., cvc5=..., verdict='unsat'|'sat'|'inconclusive')."""
    rz, tz, model = _z3(smt, timeout_s)
    rc, tc, model_c = _cvc5(smt, timeout_s)
    rc = rc or 'unknown'
    if rz == 'unsat' and rc == 'unsat':
        v = 'unsat'
    elif {rz, rc} == {'sat', 'unsat'}:
        v = 'inconclusive'            # solvers disagree
    elif rz == 'sat' or rc == 'sat':
        v = 'sat'                     # replayed concretely by the caller before it is reported
        if model is None:
            model = model_c
    else:
        v = 'inconclusive'
    return dict(z3=rz, cvc5=rc, z3_s=round(tz, 3), cvc5_s=round(tc, 3), verdict=v, model=model)


# ------------------------------------------------------------------ AST access
def _module(fname):
    return ast.parse(open(os.path.join(SRC, fname)).read())


def _find_func(tree, qual):
    parts = qual.split('.')
    node = tree
    for p in parts:
        for ch in ast.iter_child_nodes(node):
            if isinstance(ch, (ast.FunctionDef, ast.ClassDef)) and ch.name == p:
                node = ch
                break
        else:
            raise LookupError(qual)
    return node


def _module_consts(tree, known=None):
    """Module-level string/int constants built with + from other constants."""
    env = dict(known or {})
    for st in tree.body:
        if isinstance(st, ast.Assign) and len(st.targets) == 1 and isinstance(st.targets[0], ast.Name):
            try:
                env[st.targets[0].id] = _const_eval(st.value, env)
            except Exception:
                pass
    return env


def _const_eval(n, env):
    if isinstance(n, ast.Constant) and isinstance(n.value, (str, int)):
        return n.value
    if isinstance(n, ast.Name):
        return env[n.id]
    if isinstance(n, ast.BinOp) and isinstance(n.op, ast.Add):
        return _const_eval(n.left, env) + _const_eval(n.right, env)
    raise ValueError('not constant')


def _smt_str(s):
    out = []
    for ch in s:
        o = ord(ch)
        if 32 <= o < 127 and ch not in '"\\':
            out.append(ch)
        else:
            out.append('\\u{%x}' % o)
    return '"' + ''.join(out) + '"'


class Untranslatable(Exception):
    pass


def _int_term(n, ints):
    if isinstance(n, ast.Name) and n.id in ints:
        return n.id
    if isinstance(n, ast.Constant) and isinstance(n.value, int) and not isinstance(n.value, bool):
        return str(n.value) if n.value >= 0 else '(- %d)' % -n.value
    if isinstance(n, ast.BinOp):
        op = {ast.Add: '+', ast.Sub: '-', ast.Mult: '*'}.get(type(n.op))
        if op:
            return '(%s %s %s)' % (op, _int_term(n.left, ints), _int_term(n.right, ints))
    if isinstance(n, ast.UnaryOp) and isinstance(n.op, ast.USub):
        return '(- %s)' % _int_term(n.operand, ints)
    raise Untranslatable(ast.dump(n))


def _str_term(n, ints, consts):
    if isinstance(n, ast.Constant) and isinstance(n.value, str):
        return _smt_str(n.value)
    if isinstance(n, ast.Name) and n.id in consts and isinstance(consts[n.id], str):
        return _smt_str(consts[n.id])
    if isinstance(n, ast.BinOp) and isinstance(n.op, ast.Add):
        return '(str.++ %s %s)' % (_str_term(n.left, ints, consts), _str_term(n.right, ints, consts))
    if (isinstance(n, ast.Call) and isinstance(n.func, ast.Name) and n.func.id == 'str' and len(n.args) == 1
            and not n.keywords):
        return '(pystr %s)' % _int_term(n.args[0], ints)
    if isinstance(n, ast.JoinedStr):
        parts = []
        for v in n.values:
            if isinstance(v, ast.Constant):
                parts.append(_smt_str(v.value))
            elif isinstance(v, ast.FormattedValue) and v.conversion == -1 and v.format_spec is None:
                parts.append('(pystr %s)' % _int_term(v.value, ints))
            else:
                raise Untranslatable(ast.dump(v))
        return '(str.++ %s "")' % ' '.join(parts) if parts else '""'
    if isinstance(n, ast.Call) and isinstance(n.func, ast.Name) and n.func.id in consts.get('__funcs__', {}) and not n.keywords:
        # call of another helper: inline its single return expression (positional arguments, integer defaults)
        callee = consts['__funcs__'][n.func.id]
        params = [a.arg for a in callee.args.args]
        defaults = callee.args.defaults
        bound = {}
        for k, prm in enumerate(params):
            if k < len(n.args):
                bound[prm] = n.args[k]
            else:
                d = defaults[k - (len(params) - len(defaults))] if k >= len(params) - len(defaults) else None
                if d is None:
                    raise Untranslatable('missing argument for ' + n.func.id)
                bound[prm] = d

        class _Sub(ast.NodeTransformer):
            def visit_Name(self, node):
                return bound.get(node.id, node)
        body = _Sub().visit(ast.parse(ast.unparse(_single_return(callee)), mode='eval').body)
        return _str_term(body, ints, consts)
    raise Untranslatable(ast.dump(n))


PYSTR = ('(define-fun pystr ((x Int)) String (ite (>= x 0) (str.from_int x) '
         '(str.++ "-" (str.from_int (- x)))))\n')


def _single_return(fn):
    body = [s for s in fn.body if not (isinstance(s, ast.Expr) and isinstance(s.value, ast.Constant))]
    if len(body) != 1 or not isinstance(body[0], ast.Return):
        raise Untranslatable('function body is not a single return: ' + fn.name)
    return body[0].value


def lemma_helpers():
    """For every cursor/erase/scroll helper and ALL integers n (r, c):
    result == ESC '[' decimal(n) [';' decimal(c)] final."""
    import importlib
    t0 = time.time()
    tree_f = _module('ansi_format.py')
    consts = _module_consts(tree_f)
    tree = _module('ansi_string.py')
    consts = _module_consts(tree, consts)
    table = [('cursor_up_str', 'A'), ('cursor_down_str', 'B'), ('cursor_forward_str', 'C'),
             ('cursor_backward_str', 'D'), ('cursor_next_line_str', 'E'), ('cursor_previous_line_str', 'F'),
             ('cursor_horizontal_absolute_str', 'G'), ('erase_in_display_str', 'J'), ('erase_in_line_str', 'K'),
             ('scroll_up_str', 'S'), ('scroll_down_str', 'T'), ('cursor_position_str', 'H')]
    detail = []
    status = 'discharged'
    queries = 0
    solver_s = 0.0
    mod = importlib.import_module('ansi_string')
    consts['__funcs__'] = {st.name: st for st in tree.body if isinstance(st, ast.FunctionDef)}
    # cursor_back_str: an alias (assignment) of cursor_backward_str, or a function of its own that is then translated like the others
    alias_ok = False
    for st in tree.body:
        if (isinstance(st, ast.Assign) and isinstance(st.targets[0], ast.Name) and st.targets[0].id == 'cursor_back_str'
                and isinstance(st.value, ast.Name) and st.value.id == 'cursor_backward_str'):
            alias_ok = True
    if not alias_ok:
        table = table + [('cursor_back_str', 'D')]
    for name, final in table:
        try:
            fn = _find_func(tree, name)
            args = [a.arg for a in fn.args.args]
            expr = _single_return(fn)
            term = _str_term(expr, set(args), consts)
        except (Untranslatable, LookupError) as e:
            detail.append({'fn': name, 'verdict': 'inconclusive', 'reason': 'not translatable: %s' % str(e)[:120]})
            if status == 'discharged':
                status = 'inconclusive'
            continue
        expected = '(str.++ "\\u{1b}[" %s %s)' % (' ";" '.join('(pystr %s)' % a for a in args), _smt_str(final))
        smt = '(set-logic ALL)\n' + PYSTR + ''.join('(declare-const %s Int)\n' % a for a in args)
        smt += '(assert (not (= %s %s)))\n' % (term, expected)
        r = smt_check(smt, 10)
        queries += 2
        solver_s += r['z3_s'] + r['cvc5_s']
        if r['verdict'] == 'inconclusive':
            # counter-example search restricted to small arguments (a `sat` here is still genuine)
            small = smt + ''.join('(assert (and (<= (- 9) %s) (<= %s 20)))\n' % (a, a) for a in args)
            r2 = smt_check(small, 30)
            queries += 2
            solver_s += r2['z3_s'] + r2['cvc5_s']
            if r2['verdict'] == 'sat':
                r = r2
        d = {'fn': name, 'term': term, 'z3': r['z3'], 'cvc5': r['cvc5'], 'verdict': r['verdict']}
        if r['verdict'] == 'sat':
            # replay on the real function
            vals = [int((r['model'] or {}).get(a, 0)) for a in args]
            got = getattr(mod, name)(*vals)
            exp = '\x1b[' + ';'.join(str(v) for v in vals) + final
            d['replay'] = {'args': vals, 'got': got, 'expected': exp}
            if got != exp:
                status = 'violated'
                d['verdict'] = 'violated'
            else:
                d['verdict'] = 'inconclusive'
                if status == 'discharged':
                    status = 'inconclusive'
        elif r['verdict'] != 'unsat' and status == 'discharged':
            status = 'inconclusive'
        detail.append(d)
    return {'status': status, 'queries': queries, 'solver_s': round(solver_s, 3), 'detail': detail,
            'functions': [t[0] for t in table], 'bounds': 'all integers (unbounded Int), strings via str.from_int',
            'wall_s': round(time.time() - t0, 2),
            'reason': '; '.join('%s: %s' % (d['fn'], d.get('reason', d['verdict'])) for d in detail if d['verdict'] != 'unsat')}


lemma_helpers.is_lemma = True


# ------------------------------------------------------------------ rgb split (QF_BV)
def _bv_term(n, env, w=64):
    if isinstance(n, ast.Name) and n.id in env:
        return env[n.id]
    if isinstance(n, ast.Constant) and isinstance(n.value, int):
        return '(_ bv%d %d)' % (n.value % (1 << w), w)
    if isinstance(n, ast.BinOp):
        op = {ast.BitAnd: 'bvand', ast.BitOr: 'bvor', ast.RShift: 'bvashr', ast.LShift: 'bvshl',
              ast.Add: 'bvadd', ast.Sub: 'bvsub'}.get(type(n.op))
        if op:
            return '(%s %s %s)' % (op, _bv_term(n.left, env, w), _bv_term(n.right, env, w))
    raise Untranslatable(ast.dump(n))


def lemma_rgb_split():
    """_AnsiControlFn.rgb(v) single-argument form: for 0 <= v < 2^24,
    v = 65536 r + 256 g + b and 0 <= r,g,b <= 255; for every 64-bit v each
    component is in 0..255.  Terms come from the three assignments in the AST."""
    t0 = time.time()
    tree = _module('ansi_format.py')
    fn = _find_func(tree, '_AnsiControlFn.rgb')
    # locate the branch `elif g is None or b is None:` and its r/g/b assignments
    assigns = {}
    for node in ast.walk(fn):
        if isinstance(node, ast.If):
            names = {}
            for st in node.body:
                if isinstance(st, ast.Assign) and isinstance(st.targets[0], ast.Name) and st.targets[0].id in 'rgb':
                    names[st.targets[0].id] = st.value
            if set(names) == {'r', 'g', 'b'} and any(isinstance(x, ast.BinOp) for x in names.values()):
                if all(not isinstance(v, ast.Call) for v in names.values()):
                    assigns = names
    if not assigns:
        return {'status': 'inconclusive', 'queries': 0, 'solver_s': 0, 'reason': 'r/g/b assignments not found in AST'}
    try:
        terms = {k: _bv_term(v, {'r_or_rgb': 'v'}) for k, v in assigns.items()}
    except Untranslatable as e:
        return {'status': 'inconclusive', 'queries': 0, 'solver_s': 0, 'reason': 'not translatable: ' + str(e)[:150]}
    head = '(set-logic QF_BV)\n(declare-const v (_ BitVec 64))\n'
    defs = ''.join('(define-fun %s () (_ BitVec 64) %s)\n' % (k, terms[k]) for k in 'rgb')
    rng = '(and (bvsle (_ bv0 64) {0}) (bvsle {0} (_ bv255 64)))'
    q1 = head + defs + ('(assert (bvsle (_ bv0 64) v))\n(assert (bvslt v (_ bv16777216 64)))\n'
                        '(assert (not (and (= v (bvadd (bvmul r (_ bv65536 64)) (bvmul g (_ bv256 64)) b)) %s %s %s)))\n'
                        % (rng.format('r'), rng.format('g'), rng.format('b')))
    q2 = head + defs + '(assert (not (and %s %s %s)))\n' % (rng.format('r'), rng.format('g'), rng.format('b'))
    detail = []
    status = 'discharged'
    solver_s = 0.0
    import importlib
    fmt = importlib.import_module('ansi_string.ansi_format')
    for nm, q in (('split-exact-below-2^24', q1), ('components-in-range-all-64-bit', q2)):
        r = smt_check(q, 60)
        solver_s += r['z3_s'] + r['cvc5_s']
        d = {'query': nm, 'z3': r['z3'], 'cvc5': r['cvc5'], 'verdict': r['verdict'], 'terms': terms}
        if r['verdict'] == 'sat':
            v = int((r['model'] or {}).get('v', 0))
            got = str(fmt.AnsiFormat.rgb(v)[0])
            exp = None
            if 0 <= v < (1 << 24):
                exp = '38;2;%d;%d;%d' % (v >> 16, (v >> 8) & 255, v & 255)
                bad = got != exp
            else:
                bad = any(not (0 <= int(x) <= 255) for x in got.split(';')[2:])
            d['replay'] = {'v': v, 'got': got, 'expected': exp}
            if bad:
                status = 'violated'
                d['verdict'] = 'violated'
            elif status == 'discharged':
                status = 'inconclusive'
        elif r['verdict'] != 'unsat' and status == 'discharged':
            status = 'inconclusive'
        detail.append(d)
    return {'status': status, 'queries': 4, 'solver_s': round(solver_s, 3), 'detail': detail,
            'functions': ['_AnsiControlFn.rgb'], 'bounds': '|v| < 2^63 (64-bit two\'s complement; Python ints beyond are outside)',
            'wall_s': round(time.time() - t0, 2),
            'reason': '; '.join('%s: %s' % (d['query'], d['verdict']) for d in detail if d['verdict'] != 'unsat')}


lemma_rgb_split.is_lemma = True


# ------------------------------------------------------------------ center: floor(num / 2)
def lemma_center_floor():
    """AnsiString.center: left_spaces = math.floor(num / 2) (float division).
    For all integers 0 <= num < 2^53: floor(fp64(num) / 2.0) == num div 2.
    The statement is taken from the AST (must be math.floor(<name> / <int const>))."""
    t0 = time.time()
    tree = _module('ansi_string.py')
    fn = _find_func(tree, 'AnsiString.center')
    found = None
    for node in ast.walk(fn):
        if (isinstance(node, ast.Assign) and isinstance(node.targets[0], ast.Name)
                and node.targets[0].id == 'left_spaces'):
            found = node.value
    if found is None:
        return {'status': 'inconclusive', 'queries': 0, 'solver_s': 0, 'reason': 'left_spaces assignment not found'}
    kind = None
    div = None
    v = found
    if (isinstance(v, ast.Call) and isinstance(v.func, ast.Attribute) and v.func.attr == 'floor'
            and len(v.args) == 1 and isinstance(v.args[0], ast.BinOp) and isinstance(v.args[0].op, ast.Div)
            and isinstance(v.args[0].right, ast.Constant) and isinstance(v.args[0].right.value, int)):
        kind = 'float-floor'
        div = v.args[0].right.value
    elif isinstance(v, ast.BinOp) and isinstance(v.op, ast.FloorDiv) and isinstance(v.right, ast.Constant):
        kind = 'int-floordiv'
        div = v.right.value
    else:
        return {'status': 'inconclusive', 'queries': 0, 'solver_s': 0,
                'reason': 'left_spaces expression not of a known shape: ' + ast.dump(v)[:150]}
    detail = {'kind': kind, 'divisor': div}
    if kind == 'int-floordiv':
        ok = div == 2
        return {'status': 'discharged' if ok else 'violated', 'queries': 0, 'solver_s': 0, 'detail': [detail],
                'reason': '' if ok else 'left_spaces = num // %d' % div}
    # QF_BVFP: nb 64-bit, nb < 2^53: fp.to_sbv(RTZ, roundToIntegral(RTN, to_fp(nb) / to_fp(div))) == nb div div
    smt = ('(set-logic QF_BVFP)\n(declare-const nb (_ BitVec 64))\n'
           '(assert (bvult nb (_ bv9007199254740992 64)))\n'
           '(define-fun x () (_ FloatingPoint 11 53) ((_ to_fp_unsigned 11 53) RNE nb))\n'
           '(define-fun dd () (_ FloatingPoint 11 53) ((_ to_fp_unsigned 11 53) RNE (_ bv%d 64)))\n'
           '(define-fun q () (_ FloatingPoint 11 53) (fp.roundToIntegral RTN (fp.div RNE x dd)))\n'
           '(assert (not (= ((_ fp.to_ubv 64) RTZ q) (bvudiv nb (_ bv2 64)))))\n' % div)
    r = smt_check(smt, 120)
    detail.update({'z3': r['z3'], 'cvc5': r['cvc5'], 'verdict': r['verdict']})
    status = 'discharged' if r['verdict'] == 'unsat' else 'inconclusive'
    if r['verdict'] == 'sat':
        import math
        nb = int((r['model'] or {}).get('nb', 0))
        got = math.floor(nb / div)
        detail['replay'] = {'num': nb, 'got': got, 'expected': nb // 2}
        status = 'violated' if got != nb // 2 else 'inconclusive'
    return {'status': status, 'queries': 2, 'solver_s': round(r['z3_s'] + r['cvc5_s'], 3), 'detail': [detail],
            'functions': ['AnsiString.center (left_spaces)'], 'bounds': '0 <= num < 2^53',
            'wall_s': round(time.time() - t0, 2), 'reason': '' if status == 'discharged' else str(detail)}


lemma_center_floor.is_lemma = True

if __name__ == '__main__':
    import json
    import sys
    sys.path.insert(0, os.path.join(REPO, 'src'))
    for f in (lemma_helpers, lemma_rgb_split, lemma_center_floor):
        r = f()
        print(f.__name__, r['status'], r.get('solver_s'), r.get('reason'))
        if '-v' in sys.argv:
            print(json.dumps(r, indent=1))
