import argparse
import json
import os
import subprocess
import sys

ROOT = os.path.dirname(os.path.dirname(os.path.abspath(__file__)))
if ROOT not in sys.path:
    sys.path.insert(0, ROOT)


def main():
    ap = argparse.ArgumentParser()
    ap.add_argument('prop')
    ap.add_argument('--tier', default=os.environ.get('VERIF_TIER', 'quick'), choices=['quick', 'thorough'])
    ap.add_argument('--replay')
    ap.add_argument('--only', action='append')
    a = ap.parse_args()
    from engine import runner
    if a.replay:
        spec = json.load(open(a.replay))
        if 'lemma' in spec:
            print(json.dumps(spec['lemma'], indent=1))
            return 1
        rep = runner.replay_concrete(a.prop, spec['fn'], spec.get('fixed', {}), spec['inputs'])
        print(json.dumps(rep, indent=1))
        if rep.get('outcome', [None])[0] == 'fail':
            print('VIOLATION property=%s replay=%s' % (a.prop, a.replay))
            return 1
        return 0
    return runner.main(a.prop, a.tier, a.only)


if __name__ == '__main__':
    sys.exit(main())
