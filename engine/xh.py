"""xh -- symbolic-execution driver for /repo/src/ansi_string (DESIGN.md section 2).

Drives CrossHair's core (StateSpace / RootNode / tracer) directly, without
contract enforcement, with three tracer-level extensions:

  * hash-free dict for ``{}`` literals executed in ansi_string/*.py
  * slice / index normalisation on ``str`` containers before realisation
  * bisecting ``pick`` for finite inputs

One *obligation* = one harness function + fixed (concrete) keyword arguments.
The remaining parameters of the harness are created as symbolic values from
their annotations.  The harness returns

    None            precondition not met (path ignored for the verdict)
    True            property held on this path
    (label, ...)    failure; ``label`` is the failure signature

Run only with python3-vt (crosshair-tool 0.0.110, z3 5.1.0).
"""
import dis
import inspect
import os
import signal
import sys
import time
import traceback

REPO = os.environ.get('VERIF_REPO', '/repo')
if os.path.join(REPO, 'src') not in sys.path:
    sys.path.insert(0, os.path.join(REPO, 'src'))

from crosshair.core import Patched, proxy_for_type, deep_realize, realize, register_opcode_patch
from crosshair.core_and_libs import *          # noqa: F401,F403  registers library models
from crosshair.statespace import (RootNode, StateSpace, StateSpaceContext, CallAnalysis,
                                  VerificationStatus)
from crosshair.tracers import (COMPOSITE_TRACER, NoTracing, ResumedTracing, TracingModule,
                               frame_stack_read, frame_stack_write, is_tracing)
from crosshair.util import IgnoreAttempt, UnexploredPath
from crosshair.condition_parser import condition_parser
from crosshair.options import AnalysisKind
from crosshair.simplestructs import SimpleDict, ShellMutableMap
from crosshair.libimpl.builtinslib import SymbolicInt, AnySymbolicStr
import z3

# --------------------------------------------------------------------------
# solver timing
# --------------------------------------------------------------------------
SOLVER = {'calls': 0, 'seconds': 0.0, 'unknown': 0}
_orig_check = z3.Solver.check


def _timed_check(self, *a, **k):
    t = time.perf_counter()
    try:
        r = _orig_check(self, *a, **k)
    finally:
        SOLVER['calls'] += 1
        SOLVER['seconds'] += time.perf_counter() - t
    if str(r) == 'unknown':
        SOLVER['unknown'] += 1
    return r


z3.Solver.check = _timed_check

# --------------------------------------------------------------------------
# extension 1: hash-free dict for `{}` created in repo code
# --------------------------------------------------------------------------
_REPO_MARK = os.sep + 'ansi_string' + os.sep


class BuildMapInterceptor(TracingModule):
    opcodes_wanted = frozenset([dis.opmap['BUILD_MAP']])

    def trace_op(self, frame, codeobj, codenum):
        if _REPO_MARK not in frame.f_code.co_filename:
            return

        def post_op():
            d = frame_stack_read(frame, -1)
            if type(d) is dict and len(d) == 0:
                frame_stack_write(frame, -1, ShellMutableMap(SimpleDict([])))
        COMPOSITE_TRACER.set_postop_callback(post_op, frame)


# --------------------------------------------------------------------------
# extension 2: slice / index normalisation on str containers
# --------------------------------------------------------------------------
def _norm(v, n, default):
    if v is None:
        return default
    if v < 0:
        v = v + n
        if v < 0:
            return 0
        return pick(v, 0, n)
    if v > n:
        return n
    return pick(v, 0, n)


class _SliceView:
    __slots__ = ('c',)

    def __init__(self, c):
        self.c = c

    def __getitem__(self, key):
        c = self.c
        n = realize(len(c))
        if isinstance(key, slice):
            lo = _norm(key.start, n, 0)
            hi = _norm(key.stop, n, n)
            return c[lo:hi]
        # integer subscript
        if key < 0:
            key = key + n
            if key < 0:
                raise IndexError('string index out of range')
        if key >= n:
            raise IndexError('string index out of range')
        return c[pick(key, 0, n - 1)]


class SliceNormaliser(TracingModule):
    opcodes_wanted = frozenset([dis.opmap['BINARY_SUBSCR']])

    def trace_op(self, frame, codeobj, codenum):
        key = frame_stack_read(frame, -1)
        if type(key) is slice:
            st = key.step
            if st is not None and not (type(st) is int and st == 1):
                return
            if not (isinstance(key.start, SymbolicInt) or isinstance(key.stop, SymbolicInt)):
                return
        elif not isinstance(key, SymbolicInt):
            return
        c = frame_stack_read(frame, -2)
        if isinstance(c, (str, AnySymbolicStr)):
            frame_stack_write(frame, -2, _SliceView(c))


_registered = False


def register_extensions():
    global _registered
    if not _registered:
        register_opcode_patch(BuildMapInterceptor())
        register_opcode_patch(SliceNormaliser())
        _registered = True


# --------------------------------------------------------------------------
# harness-side helpers (work symbolically and concretely)
# --------------------------------------------------------------------------
from engine.api import pick, cover, _COVER  # noqa: E402


class PathHang(BaseException):
    pass


def _alarm(sig, frm):
    raise PathHang()


# --------------------------------------------------------------------------
# repo function coverage (which repo functions a concrete replay enters)
# --------------------------------------------------------------------------
FUNCS = set()


def _profile(frame, event, arg):
    if event == 'call':
        co = frame.f_code
        if _REPO_MARK in co.co_filename:
            FUNCS.add(os.path.basename(co.co_filename) + ':' + getattr(co, 'co_qualname', co.co_name))


def _outcome(res):
    """Normalise a harness result into ('pre',) / ('ok',) / ('fail', label)."""
    if res is None:
        return ('pre',)
    if res is True:
        return ('ok',)
    if isinstance(res, tuple) and res:
        return ('fail', str(res[0]))
    return ('fail', 'false')


def run_concrete(fn, fixed, inputs, profile=False, alarm=None):
    """Plain-CPython run of a harness.  Returns (outcome, raw_result, cover_set)."""
    _COVER.clear()
    if alarm:
        signal.signal(signal.SIGALRM, _alarm)
        signal.setitimer(signal.ITIMER_REAL, alarm)
    if profile:
        sys.setprofile(_profile)
    try:
        try:
            res = fn(**fixed, **inputs)
        except PathHang:
            res = ('HANG',)
        except Exception as e:        # harness let an exception escape
            res = ('EXC', type(e).__name__, str(e)[:200])
    finally:
        if profile:
            sys.setprofile(None)
        if alarm:
            signal.setitimer(signal.ITIMER_REAL, 0)
    return _outcome(res), res, set(_COVER)


def _jsonable(x):
    if isinstance(x, (str, int, bool, float)) or x is None:
        return x
    if isinstance(x, (list, tuple)):
        return [_jsonable(i) for i in x]
    if isinstance(x, dict):
        return {str(k): _jsonable(v) for k, v in x.items()}
    return repr(x)


def run_obligation(fn, fixed, budget, per_path=20.0, shadow=True, known=None,
                   max_samples=3, stop_on_first=True, max_paths=None):
    """Explore one obligation.  Returns a dict of counts and findings.

    known: optional callable (inputs, label) -> str|None; when it returns a
    finding id, a concretely reproduced failure is counted as that known
    finding and exploration continues.
    """
    register_extensions()
    sig = inspect.signature(fn)
    sym_params = [p for p in sig.parameters.values()
                  if p.name not in fixed and p.default is inspect.Parameter.empty]
    root = RootNode()
    t0 = time.process_time()
    w0 = time.time()
    r = dict(paths=0, confirmed=0, pre=0, refuted=0, unknown=0, ignored=0, hung=0,
             exhausted=False, shadow_runs=0, shadow_disagree=0, decisions=0,
             cover=set(), samples=[], cex=[], artefacts=[], known_hits={},
             budget_hit=False)
    s0 = dict(SOLVER)
    with condition_parser([AnalysisKind.PEP316]), Patched(), COMPOSITE_TRACER, NoTracing():
        while True:
            now = time.process_time()
            if now - t0 >= budget or (max_paths and r['paths'] >= max_paths):
                r['budget_hit'] = True
                break
            space = StateSpace(execution_deadline=now + per_path,
                               model_check_timeout=per_path / 2, search_root=root)
            r['paths'] += 1
            with StateSpaceContext(space):
                status = None
                res = None
                conc = None
                try:
                    args = {p.name: proxy_for_type(p.annotation, p.name) for p in sym_params}
                    _COVER.clear()
                    with ResumedTracing():
                        signal.signal(signal.SIGALRM, _alarm)
                        signal.setitimer(signal.ITIMER_REAL, per_path * 1.5)
                        try:
                            try:
                                res = fn(**fixed, **args)
                            except PathHang:
                                res = ('HANG',)
                            except Exception as e:
                                res = ('EXC', type(e).__name__, str(e)[:200])
                        finally:
                            signal.setitimer(signal.ITIMER_REAL, 0)
                        if res is not None and res is not True and not isinstance(res, tuple):
                            res = True if bool(res) else ('false',)
                    path_cover = set(_COVER)
                    out = _outcome(res)
                    # realise the inputs of this path (no new decision nodes)
                    with ResumedTracing():
                        space.detach_path()
                        conc = {k: deep_realize(v) for k, v in args.items()}
                        if out[0] == 'fail':
                            res = deep_realize(res)
                    r['decisions'] += len(space.choices_made)
                    # shadow replay on plain CPython
                    s_out = None
                    if shadow or out[0] == 'fail':
                        s_out, s_res, s_cover = run_concrete(
                            fn, fixed, conc, profile=(r['shadow_runs'] < 8), alarm=per_path * 2)
                        r['shadow_runs'] += 1
                    if out[0] == 'pre':
                        r['pre'] += 1
                        status = VerificationStatus.CONFIRMED
                        if s_out is not None and s_out != out:
                            r['shadow_disagree'] += 1
                            r['artefacts'].append(dict(inputs=_jsonable(conc), symbolic=out, concrete=s_out))
                            if s_out[0] == 'fail':
                                # symbolic run missed a concrete failure: treat as refutation
                                out, res = s_out, s_res
                    if out[0] == 'ok':
                        if s_out is None or s_out == out:
                            status = VerificationStatus.CONFIRMED
                            r['confirmed'] += 1
                            r['cover'] |= path_cover
                            if len(r['samples']) < max_samples:
                                r['samples'].append(_jsonable(conc))
                        else:
                            r['shadow_disagree'] += 1
                            r['artefacts'].append(dict(inputs=_jsonable(conc), symbolic=out, concrete=s_out))
                            if s_out[0] == 'fail':
                                out, res = s_out, s_res
                            else:
                                status = VerificationStatus.UNKNOWN
                                r['unknown'] += 1
                    if out[0] == 'fail':
                        if s_out is not None and s_out[0] == 'fail':
                            label = s_out[1]
                            kid = known(conc, label) if known else None
                            if kid:
                                r['known_hits'][kid] = r['known_hits'].get(kid, 0) + 1
                                status = VerificationStatus.CONFIRMED
                            else:
                                r['refuted'] += 1
                                if len(r['cex']) < 5:
                                    r['cex'].append(dict(inputs=_jsonable(conc), result=_jsonable(s_res),
                                                         label=label))
                                status = VerificationStatus.REFUTED
                            if label == 'HANG':
                                r['hung'] += 1
                        else:
                            # refutation that does not reproduce concretely: engine artefact
                            r['unknown'] += 1
                            r['artefacts'].append(dict(inputs=_jsonable(conc), symbolic=_jsonable(res),
                                                       concrete=s_out))
                            status = VerificationStatus.UNKNOWN
                except IgnoreAttempt:
                    status = None
                    r['ignored'] += 1
                except UnexploredPath as e:
                    status = VerificationStatus.UNKNOWN
                    r['unknown'] += 1
                    if len(r['artefacts']) < 10:
                        r['artefacts'].append(dict(unexplored=type(e).__name__, msg=str(e)[:200]))
                except PathHang:
                    status = VerificationStatus.UNKNOWN
                    r['unknown'] += 1
                    r['artefacts'].append(dict(unexplored='PathHang-outside-harness'))
                finally:
                    signal.setitimer(signal.ITIMER_REAL, 0)
                # report REFUTED paths as confirmed to the search tree so that the
                # search can go on; our own counters carry the verdict
                tree_status = status
                if status == VerificationStatus.REFUTED and not stop_on_first:
                    tree_status = VerificationStatus.CONFIRMED
                top, exhausted = space.bubble_status(CallAnalysis(tree_status))
                if exhausted:
                    r['exhausted'] = True
                    break
                if status == VerificationStatus.REFUTED and (stop_on_first or r['refuted'] >= 5):
                    break
    r['cpu_s'] = round(time.process_time() - t0, 2)
    r['wall_s'] = round(time.time() - w0, 2)
    r['solver_calls'] = SOLVER['calls'] - s0['calls']
    r['solver_s'] = round(SOLVER['seconds'] - s0['seconds'], 2)
    r['solver_unknown'] = SOLVER['unknown'] - s0['unknown']
    r['cover'] = sorted(r['cover'])
    r['functions'] = sorted(FUNCS)
    return r
