"""known_findings.txt: `known:` and `fixed:` lines.  Never written at run time.

known: property=<id> id=<finding-id> obligation=<glob> signature=<label> where=<python expr over i (inputs dict)> :: <what fails>
fixed: property=<id> <commit> <what failed>
"""
import fnmatch
import os

ROOT = os.path.dirname(os.path.dirname(os.path.abspath(__file__)))
PATH = os.path.join(ROOT, 'known_findings.txt')


def load():
    out = []
    if not os.path.exists(PATH):
        return out
    for line in open(PATH):
        line = line.strip()
        if not line.startswith('known:'):
            continue
        body, _, what = line[len('known:'):].partition('::')
        ent = {'what': what.strip()}
        # where= is last and may contain spaces
        pre, _, where = body.partition(' where=')
        ent['where'] = where.strip() or 'True'
        for tok in pre.split():
            k, _, v = tok.partition('=')
            ent[k] = v
        out.append(ent)
    return out


def matcher(prop, obname):
    ents = [e for e in load() if e.get('property') == prop
            and fnmatch.fnmatch(obname, e.get('obligation', '*'))]
    if not ents:
        return None

    def m(inputs, label):
        for e in ents:
            if e.get('signature') != label:
                continue
            try:
                if eval(e['where'], {'i': inputs}):
                    return e['id']
            except Exception:
                continue
        return None
    return m


def entries(prop):
    return [e for e in load() if e.get('property') == prop]
