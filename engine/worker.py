"""Worker: explore one obligation of one property and print its result.

usage: python3-vt -m engine.worker <prop> <tier> <obligation-name>
"""
import importlib
import json
import os
import sys

ROOT = os.path.dirname(os.path.dirname(os.path.abspath(__file__)))
if ROOT not in sys.path:
    sys.path.insert(0, ROOT)


def main():
    prop, tier, name = sys.argv[1:4]
    from engine import known as kn
    mod = importlib.import_module('harness.' + prop)
    obs = [o for o in mod.obligations(tier) if o.name == name]
    if len(obs) != 1:
        print('RESULT\t' + json.dumps({'error': 'obligation %s not found' % name}))
        return 2
    ob = obs[0]
    if getattr(ob.fn, 'is_lemma', False):
        res = ob.fn(**ob.fixed)
        res['kind'] = 'lemma'
        print('RESULT\t' + json.dumps(res))
        return 0
    if getattr(ob.fn, 'is_selftest', False):
        res = ob.fn(**ob.fixed)
        res['kind'] = 'selftest'
        print('RESULT\t' + json.dumps(res))
        return 0
    from engine import xh
    known = kn.matcher(prop, ob.name)
    cap = os.environ.get('VERIF_BUDGET_CAP')       # development aid: cap every budget (never set by the registered commands)
    if cap:
        ob.budget = min(ob.budget, int(cap))
    res = xh.run_obligation(ob.fn, ob.fixed, ob.budget, per_path=ob.per_path, shadow=ob.shadow,
                            known=known, stop_on_first=False, max_paths=ob.max_paths)
    res['kind'] = 'xh'
    print('RESULT\t' + json.dumps(res, default=repr))
    return 0


if __name__ == '__main__':
    sys.exit(main())
