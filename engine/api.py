"""Harness-side helpers.  No CrossHair import: harness modules must also load
under /venv/bin/python for the final concrete replay."""

_COVER = set()


def cover(label):
    _COVER.add(label)


def pick(v, lo, hi):
    """Concretise a finite input by bisection with (symbolic) comparisons.
    None when v is outside lo..hi (an unmet precondition)."""
    if v < lo or v > hi:
        return None
    while lo < hi:
        mid = (lo + hi) // 2
        if v <= mid:
            hi = mid
        else:
            lo = mid + 1
    return lo


def choose(v, seq):
    i = pick(v, 0, len(seq) - 1)
    if i is None:
        return None
    return seq[i]


class Ob:
    """One obligation: harness function + fixed concrete keyword arguments."""

    def __init__(self, name, fn, fixed=None, need=(), budget=120, per_path=20.0,
                 bounds='', kinds='', shadow=True, max_paths=None):
        self.name = name
        self.fn = fn
        self.fixed = dict(fixed or {})
        self.need = tuple(need)
        self.budget = budget
        self.per_path = per_path
        self.bounds = bounds
        self.kinds = kinds
        self.shadow = shadow
        self.max_paths = max_paths


def selftest_ob():
    """Engine self-test as an obligation of every property (DESIGN 2.3)."""
    from engine.selftest import run_selftest
    return Ob('engine-selftest', run_selftest, budget=120,
              bounds='306 repository tests under the engine vs plain CPython')
