"""Runner: all obligations of one property over the available cores, verdicts,
concrete replay of counter-examples, evidence file.

exit 0  nothing explored failed (inconclusive obligations are listed)
exit 1  a violation reproduced concretely: `VIOLATION property=<id> replay=<path>`
exit 2  harness / engine error (no verdict)
"""
import concurrent.futures as cf
import importlib
import json
import os
import random
import subprocess
import sys
import time

ROOT = os.path.dirname(os.path.dirname(os.path.abspath(__file__)))
if ROOT not in sys.path:
    sys.path.insert(0, ROOT)

REPO = os.environ.get('VERIF_REPO', '/repo')
if os.path.join(REPO, 'src') not in sys.path:
    sys.path.insert(0, os.path.join(REPO, 'src'))
PY_VT = os.environ.get('VERIF_PY', 'python3-vt')
PY_REPO = '/venv/bin/python'
NPROC = int(os.environ.get('VERIF_JOBS', os.cpu_count() or 4))


def _env():
    e = dict(os.environ)
    e['PYTHONPATH'] = ROOT + os.pathsep + os.path.join(REPO, 'src')
    e['PYTHONDONTWRITEBYTECODE'] = '1'
    e['ANSI_STRING_VERIF'] = '1'
    e['PYTHONHASHSEED'] = '0'
    return e


_PROCS = []
_CANCEL = {'flag': False}
STOP_EARLY = bool(os.environ.get('VERIF_STOP_ON_VIOLATION'))    # mutation-testing aid: stop the other workers at the first counter-example


def run_worker(prop, tier, ob):
    t0 = time.time()
    wall = ob.budget * 2 + 120
    if _CANCEL['flag']:
        return {'cancelled': True, 'kind': 'xh'}
    proc = subprocess.Popen([PY_VT, '-m', 'engine.worker', prop, tier, ob.name], cwd=ROOT, env=_env(),
                            stdout=subprocess.PIPE, stderr=subprocess.PIPE, text=True)
    _PROCS.append(proc)
    try:
        out, err = proc.communicate(timeout=wall)
    except subprocess.TimeoutExpired:
        proc.kill()
        proc.communicate()
        return {'error': 'worker wall-clock limit (%ds)' % wall, 'kind': 'xh', 'wall_s': time.time() - t0}
    if _CANCEL['flag'] and proc.returncode not in (0, 2):
        return {'cancelled': True, 'kind': 'xh'}

    class _P:
        pass
    p = _P()
    p.stdout, p.stderr, p.returncode = out, err, proc.returncode
    for line in p.stdout.splitlines():
        if line.startswith('RESULT\t'):
            r = json.loads(line[7:])
            r.setdefault('wall_s', round(time.time() - t0, 2))
            return r
    return {'error': 'worker died rc=%s: %s' % (p.returncode, (p.stderr or '')[-1500:]), 'kind': 'xh',
            'wall_s': time.time() - t0}


def replay_concrete(prop, fn_name, fixed, inputs, py=PY_REPO):
    """Run a harness on concrete inputs under the repository's interpreter."""
    payload = json.dumps({'prop': prop, 'fn': fn_name, 'fixed': fixed, 'inputs': inputs})
    p = subprocess.run([py, '-m', 'engine.replay', '-'], cwd=ROOT, env=_env(), input=payload,
                       capture_output=True, text=True, timeout=300)
    for line in p.stdout.splitlines():
        if line.startswith('REPLAY\t'):
            return json.loads(line[7:])
    return {'outcome': ['error', (p.stderr or '')[-800:]]}


def main(prop, tier, only=None):
    t0 = time.time()
    seed = int(os.environ.get('VERIF_SEED', '0'))
    mod = importlib.import_module('harness.' + prop)
    obs = list(mod.obligations(tier))
    if only:
        obs = [o for o in obs if any(s in o.name for s in only)]
    order = list(obs)
    random.Random(seed).shuffle(order)
    # longest budgets first so that the tail is short
    order.sort(key=lambda o: -o.budget)
    results = {}
    with cf.ThreadPoolExecutor(max_workers=NPROC) as ex:
        futs = {ex.submit(run_worker, prop, tier, o): o for o in order}
        for f in cf.as_completed(futs):
            r = f.result()
            results[futs[f].name] = r
            if STOP_EARLY and (r.get('cex') or r.get('status') == 'violated') and not _CANCEL['flag']:
                _CANCEL['flag'] = True
                for pr in list(_PROCS):
                    if pr.poll() is None:
                        pr.kill()

    from engine import known as kn
    violations = []
    inconclusive = []
    harness_errors = []
    known_seen = {}
    per_ob = []
    tot = dict(paths=0, decisions=0, shadow=0, solver_calls=0, solver_s=0.0, confirmed=0)
    functions = set()
    samples = []
    lemmas = []
    discharged = 0
    os.makedirs(os.path.join(ROOT, 'replays'), exist_ok=True)
    if not only:
        for fn in os.listdir(os.path.join(ROOT, 'replays')):
            if fn.startswith(prop + '-'):
                os.remove(os.path.join(ROOT, 'replays', fn))
    for o in obs:
        r = results[o.name]
        entry = {'name': o.name, 'bounds': o.bounds, 'input_kinds': o.kinds}
        if r.get('cancelled'):
            entry['verdict'] = 'cancelled (VERIF_STOP_ON_VIOLATION)'
            per_ob.append(entry)
            continue
        if 'error' in r:
            entry['error'] = r['error']
            harness_errors.append((o.name, r['error']))
            per_ob.append(entry)
            continue
        if r.get('kind') == 'lemma':
            entry.update(r)
            lemmas.append(entry)
            ok = r.get('status') == 'discharged'
            if r.get('status') == 'violated':
                path = os.path.join(ROOT, 'replays', '%s-%s.json' % (prop, o.name.replace('/', '_')))
                json.dump({'property': prop, 'obligation': o.name, 'lemma': r}, open(path, 'w'), indent=1)
                violations.append((o.name, path))
            elif not ok:
                inconclusive.append((o.name, r.get('reason', 'lemma not discharged')))
            else:
                discharged += 1
            tot['solver_calls'] += r.get('queries', 0)
            tot['solver_s'] += r.get('solver_s', 0)
            per_ob.append(entry)
            continue
        if r.get('kind') == 'selftest':
            entry.update(r)
            if not r.get('ok'):
                harness_errors.append((o.name, 'engine self-test mismatch: %s' % r.get('detail')))
            else:
                discharged += 1
            per_ob.append(entry)
            continue
        for k in ('paths', 'confirmed', 'pre', 'refuted', 'unknown', 'ignored', 'exhausted', 'shadow_runs',
                  'shadow_disagree', 'decisions', 'cover', 'solver_calls', 'solver_s', 'solver_unknown',
                  'cpu_s', 'wall_s', 'budget_hit', 'known_hits', 'hung'):
            entry[k] = r.get(k)
        tot['paths'] += r['paths']
        tot['decisions'] += r['decisions']
        tot['shadow'] += r['shadow_runs']
        tot['solver_calls'] += r['solver_calls']
        tot['solver_s'] += r['solver_s']
        tot['confirmed'] += r['confirmed']
        functions |= set(r.get('functions', []))
        for s in r.get('samples', [])[-2:]:
            samples.append({'obligation': o.name, 'paths': r['paths'], 'fixed': _js(o.fixed), 'inputs': s})
        for kid, cnt in (r.get('known_hits') or {}).items():
            known_seen[kid] = known_seen.get(kid, 0) + cnt
        missing = [c for c in o.need if c not in r['cover']]
        entry['missing_cover'] = missing
        fn_name = o.fn.__module__ + ':' + o.fn.__name__
        # violations: replay under the repository's interpreter
        n_viol = 0
        for i, cex in enumerate(r.get('cex', [])):
            rep = replay_concrete(prop, fn_name, o.fixed, cex['inputs'])
            if rep.get('outcome', [None])[0] == 'fail':
                path = os.path.join(ROOT, 'replays', '%s-%s-%d.json' % (prop, o.name.replace('/', '_'), i))
                json.dump({'property': prop, 'obligation': o.name, 'fn': fn_name, 'fixed': _js(o.fixed),
                           'inputs': cex['inputs'], 'observed': rep.get('result'), 'label': cex['label']},
                          open(path, 'w'), indent=1)
                violations.append((o.name, path))
                samples.append({'obligation': o.name, 'counterexample': cex})
                n_viol += 1
            else:
                entry.setdefault('nonreproducing', []).append({'cex': cex, 'venv_replay': rep})
        entry['violations'] = n_viol
        reasons = []
        if r['refuted'] and not n_viol:
            reasons.append('refutation not reproduced under %s' % PY_REPO)
        if not r['exhausted']:
            reasons.append('search not exhausted (budget)' if r['budget_hit'] else 'search not exhausted')
        if r['unknown']:
            reasons.append('%d unknown paths' % r['unknown'])
        if r['shadow_disagree']:
            reasons.append('%d engine/CPython disagreements' % r['shadow_disagree'])
        if missing:
            reasons.append('cover labels not reached: %s' % ','.join(missing))
        if r['confirmed'] == 0 and not r.get('known_hits'):
            reasons.append('no path reached the assertion (vacuous)')
        if r.get('artefacts'):
            entry['artefacts'] = r['artefacts'][:5]
        if n_viol:
            entry['verdict'] = 'violated'
        elif reasons:
            entry['verdict'] = 'inconclusive'
            entry['reasons'] = reasons
            inconclusive.append((o.name, '; '.join(reasons)))
        else:
            entry['verdict'] = 'discharged'
            discharged += 1
        per_ob.append(entry)

    # samples: from the obligations that explored most paths (plus every counter-example)
    samples = sorted([x for x in samples if 'counterexample' not in x], key=lambda x: -x.get('paths', 0))[:12] + \
        [x for x in samples if 'counterexample' in x]
    wall = round(time.time() - t0, 2)
    # known findings of this property
    kf_lines = []
    for e in kn.entries(prop):
        if known_seen.get(e['id']):
            kf_lines.append('KNOWN-FINDING: property=%s %s' % (prop, e['what']))
    level = getattr(mod, 'LEVEL', 'model_checking')
    ev = {
        'property_id': prop, 'tier': tier, 'seed': seed, 'level': level,
        'coverage': {
            'states': max(tot['paths'], 1), 'transitions': max(tot['decisions'], 1),
            'traces_validated_against_impl': tot['shadow'],
            'samples': samples or [{'note': 'no sample recorded'}],
            'obligations': len(obs), 'discharged': discharged,
            'paths_confirmed': tot['confirmed'],
            'solver': 'z3 (via crosshair-tool 0.0.110 per-path engine)' ,
            'queries_discharged': tot['solver_calls'], 'solver_seconds': round(tot['solver_s'], 2),
            'functions_encoded': sorted(functions),
            'bounds': getattr(mod, 'BOUNDS', {}).get(tier, ''),
            'outside_bounds': getattr(mod, 'OUTSIDE', ''),
            'per_obligation': per_ob,
            'lemmas': lemmas,
            'known_findings_seen': known_seen,
            'inconclusive': [n for n, _ in inconclusive],
            'exhaustive': False,
            'explanation': 'states = execution paths explored symbolically (one per feasible combination of branch '
                           'outcomes of the real code), transitions = solver-decided branch decisions, '
                           'traces_validated = paths whose z3 model was replayed on plain CPython with the same outcome',
        },
        'assumptions': list(getattr(mod, 'ASSUMPTIONS', [])) + [
            'CPython 3.11 (python3-vt) semantics for the symbolic run; counter-examples replayed on /venv/bin/python 3.12',
            'CrossHair symbolic int/str/list models, checked per path by shadow replay on plain CPython',
            'hash-free dict and slice-normaliser extensions (engine/xh.py), validated by the repository test-suite under the engine',
            'reference definitions in /verif/ref (ECMA-48 SGR table, Python slice rule)',
        ],
        'wall_s': wall, 'violations': len(violations),
    }
    os.makedirs(os.path.join(ROOT, 'evidence'), exist_ok=True)
    json.dump(ev, open(os.path.join(ROOT, 'evidence', prop + '.json'), 'w'), indent=1, default=repr)

    for n, why in inconclusive:
        print('INCONCLUSIVE obligation=%s %s' % (n, why))
    for line in kf_lines:
        print(line)
    print('%s tier=%s obligations=%d discharged=%d paths=%d solver_calls=%d solver_s=%.1f wall=%.1fs' % (
        prop, tier, len(obs), discharged, tot['paths'], tot['solver_calls'], tot['solver_s'], wall))
    if harness_errors:
        for n, e in harness_errors:
            print('HARNESS-ERROR obligation=%s %s' % (n, e))
        return 2
    if violations:
        for n, path in violations:
            print('VIOLATION property=%s replay=%s' % (prop, path))
        return 1
    return 0


def _js(x):
    try:
        json.dumps(x)
        return x
    except TypeError:
        return {k: repr(v) for k, v in x.items()}
