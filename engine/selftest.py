"""Engine self-test ("translator validation"): the repository's own unittest
cases are executed inside one CrossHair state space with the hash-free dict
and slice-normaliser extensions active; the pass/fail vector must equal the
one obtained on plain CPython in the same process.

usage: python3-vt -m engine.selftest     (exit 0 = same vector)
"""
import io
import os
import sys
import time
import unittest

ROOT = os.path.dirname(os.path.dirname(os.path.abspath(__file__)))
if ROOT not in sys.path:
    sys.path.insert(0, ROOT)
REPO = os.environ.get('VERIF_REPO', '/repo')


def _suite():
    if REPO not in sys.path:
        sys.path.insert(0, REPO)
    if os.path.join(REPO, 'src') not in sys.path:
        sys.path.insert(0, os.path.join(REPO, 'src'))
    loader = unittest.TestLoader()
    suite = unittest.TestSuite()
    import tests.test_ansi_string as t1
    import tests.test_ansi_str as t2
    suite.addTests(loader.loadTestsFromModule(t1))
    suite.addTests(loader.loadTestsFromModule(t2))
    return suite


class _Rec(unittest.TestResult):
    def __init__(self):
        super().__init__()
        self.vec = {}

    def addSuccess(self, test):
        self.vec[test.id()] = 'pass'

    def addFailure(self, test, err):
        self.vec[test.id()] = 'fail'

    def addError(self, test, err):
        self.vec[test.id()] = 'error'

    def addSkip(self, test, reason):
        self.vec[test.id()] = 'skip'


def run_selftest():
    t0 = time.time()
    plain = _Rec()
    _suite().run(plain)
    from engine import xh
    from crosshair.core import Patched
    from crosshair.statespace import RootNode, StateSpace, StateSpaceContext
    from crosshair.tracers import COMPOSITE_TRACER, NoTracing, ResumedTracing
    from crosshair.condition_parser import condition_parser
    from crosshair.options import AnalysisKind
    xh.register_extensions()
    under = _Rec()
    now = time.process_time()
    with condition_parser([AnalysisKind.PEP316]), Patched(), COMPOSITE_TRACER, NoTracing():
        space = StateSpace(execution_deadline=now + 3600, model_check_timeout=60, search_root=RootNode())
        with StateSpaceContext(space):
            with ResumedTracing():
                _suite().run(under)
    diff = {k: (plain.vec.get(k), under.vec.get(k)) for k in set(plain.vec) | set(under.vec)
            if plain.vec.get(k) != under.vec.get(k)}
    return {'ok': not diff and len(plain.vec) > 0, 'tests': len(plain.vec),
            'plain_pass': sum(1 for v in plain.vec.values() if v == 'pass'),
            'engine_pass': sum(1 for v in under.vec.values() if v == 'pass'),
            'detail': dict(list(diff.items())[:10]), 'wall_s': round(time.time() - t0, 2)}


run_selftest.is_selftest = True

if __name__ == '__main__':
    r = run_selftest()
    print(r)
    sys.exit(0 if r['ok'] else 2)
