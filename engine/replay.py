"""Concrete replay of a harness on given inputs (no solver, no tracer).

usage: <python> -m engine.replay <file.json | ->
Prints `REPLAY\t{"outcome": [...], "result": ...}`; exit 1 when the harness
reports a failure, 0 when it passes, 3 when the precondition is not met.
"""
import importlib
import json
import os
import signal
import sys

ROOT = os.path.dirname(os.path.dirname(os.path.abspath(__file__)))
if ROOT not in sys.path:
    sys.path.insert(0, ROOT)


class _Hang(BaseException):
    pass


def _alarm(sig, frm):
    raise _Hang()


def run(spec):
    modname, _, fname = spec['fn'].partition(':')
    fn = getattr(importlib.import_module(modname), fname)
    signal.signal(signal.SIGALRM, _alarm)
    signal.setitimer(signal.ITIMER_REAL, 60)
    try:
        res = fn(**spec.get('fixed', {}), **spec['inputs'])
    except _Hang:
        res = ('HANG',)
    except Exception as e:
        res = ('EXC', type(e).__name__, str(e)[:200])
    finally:
        signal.setitimer(signal.ITIMER_REAL, 0)
    if res is None:
        return ['pre'], None
    if res is True:
        return ['ok'], None
    if isinstance(res, tuple) and res:
        return ['fail', str(res[0])], res
    return ['fail', 'false'], res


def main():
    src = sys.argv[1]
    spec = json.load(sys.stdin if src == '-' else open(src))
    out, res = run(spec)
    print('REPLAY\t' + json.dumps({'outcome': out, 'result': res}, default=repr))
    return {'ok': 0, 'fail': 1, 'pre': 3}[out[0]]


if __name__ == '__main__':
    sys.exit(main())
