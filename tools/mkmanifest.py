#!/usr/bin/env python3
"""Regenerates /verif/MANIFEST.json from the table below (run after adding a harness)."""
import json
import os

ROOT = os.path.dirname(os.path.dirname(os.path.abspath(__file__)))

TECH = ('bounded symbolic execution of the real Python code (CrossHair core driven per path, z3 decides every branch; '
        'hash-free dict + slice normaliser keep integer arguments symbolic), exhaustion of the path tree within stated bounds, '
        'z3 model of every path replayed on plain CPython')

NOTE = ('Trusted: CPython 3.11/3.12, z3 5.1.0, CrossHair 0.0.110 tracer and symbolic int/str models (every path is shadow-replayed '
        'concretely; the repository test-suite is re-run under the engine on every check), the reference definitions in /verif/ref. '
        'Bounds (text length, builder steps, alphabets) are listed in the evidence file; values outside them are not claimed.')

# id -> (design section, level text, extra technique words)
PROPS = {
    'C01': ('4/C01', 'For every value built by <=2 apply steps (plus sliced/padded/concatenated/parsed shapes) and all 8 flag combinations the rendering is interpreted by an independent SGR terminal model and compared with the reported per-character settings; every SGR code 0..256 is swept through the optimiser. All paths of the finite product are exhausted by the solver.', ''),
    'C02': ('4/C02', 'Inputs composed of sequence-alphabet segments and symbolic text characters are parsed by the real code and compared, per character, with an independent terminal interpretation of the same string; one free SGR code 0..256 in three contexts.', ''),
    'C03': ('4/C03', 'Render/re-parse and simplify() are executed on every builder value within the bounds and compared per character through the reference terminal; idempotence and fixed-point checked on the same paths.', ''),
    'C04': ('4/C04', 'Slice bounds and integer indices are unbounded symbolic integers; paths are order types of the bounds relative to the change points, exhausted by z3, for every builder receiver within the bounds.', ''),
    'C05': ('4/C05', 'All seam configurations of two builder operands (and str/AnsiStr operands) within the bounds; split point k is an unbounded symbolic integer.', ''),
    'C06': ('4/C06', 'start/end are unbounded symbolic integers (or None); the oracle is transcribed from the statement; every builder receiver within the bounds; path tree exhausted.', ''),
    'C07': ('4/C07', 'start/end unbounded symbolic integers; selections present/absent/hidden/None; receivers with conflicting settings spanning the range end.', ''),
    'C08': ('4/C08', 'Operation table over builder operands; snapshots of operands before/after the call and after mutating the result and the source, with symbolic mutation ranges.', ''),
    'C09': ('4/C09', 'Builder + one (thorough: two) operations from the public list with degenerate arguments under WITH_ASSERTIONS; exception types, receiver unchanged after errors, observation battery; bounded termination via per-path watchdog and concrete replay under a second alarm.', ''),
    'C10': ('4/C10', 'Base texts and arguments are symbolic strings over all of Unicode (bounded length), integer arguments unbounded; results compared with str itself on every path.', ''),
    'C11': ('4/C11', 'Symbolic texts and separators; piece offsets derived from the str result; per-character settings compared at the true offset for every path.', ''),
    'C12': ('4/C12', 'Padding methods and format specs on builder receivers with symbolic fill characters and widths (bounded above); text compared with format(), fill styles per statement; float floor(num/2) closed by a QF_BVFP lemma in z3 and cvc5.', '; direct SMT lemma (z3 + cvc5) for the float kernel'),
    'C13': ('4/C13', 'Every method common to AnsiStr and AnsiString (by introspection) run through both classes on the same inputs; constructor forms enumerated; payload equals rendering.', ''),
    'C14': ('4/C14', 'All AnsiFormat members x spellings swept inside the engine; rgb/color256 helpers with unbounded integers (clamping paths exhausted); 24-bit split closed by a bit-vector lemma from the AST; nesting shapes and error classes.', '; direct SMT lemma (z3 + cvc5) for the 24-bit split'),
    'C15': ('4/C15', 'valid over all strings up to the bound against the byte-range definition; parsable against an independent grammar (strict/lenient band); stripping of every rendering with a symbolic valid verbatim setting.', ''),
    'C16': ('4/C16', 'format_matching/unformat_matching compared with apply/remove over re.finditer matches; count is an unbounded symbolic integer; texts symbolic for the simple regex family.', ''),
    'C17': ('4/C17', 'ansi_settings_at/settings_at/find_settings with unbounded symbolic indices and ranges against the statement transcribed over the per-character table.', ''),
    'C18': ('4/C18', 'parse_graphic_sequence + settings_to_dict compared with the reference terminal on code lists over a class alphabet plus one free code 0..256 at each position; three input shapes; both add_erroneous values.', ''),
    'C19': ('4/C19', 'All strings up to the bound (any Unicode) x 5 constructor settings against an independent tokeniser; reconstruction equals the input; helper texts for ALL integers by a direct SMT lemma over the AST (strings + LIA), recognition by the parser on boundary values.', '; direct SMT lemma (z3 + cvc5) for the helper texts'),
}


def main():
    checks = []
    na = []
    for pid in sorted(PROPS):
        sec, text, extra = PROPS[pid]
        if os.path.exists(os.path.join(ROOT, 'harness', pid + '.py')):
            checks.append({
                'property_id': pid,
                'quick_cmd': './check %s --tier quick' % pid,
                'thorough_cmd': './check %s --tier thorough' % pid,
                'evidence_file': 'evidence/%s.json' % pid,
                'replay_cmd_template': './check %s --replay {path}' % pid,
                'engine': 'xh',
                'level_claimed': {'category': 'model_checking', 'text': text + ' Bounded: holds for every value within the stated bounds, nothing is claimed outside them.', 'design_ref': 'DESIGN.md section ' + sec + ' and section 8 (as built)'},
                'level_note': NOTE,
                'technique': TECH + extra,
            })
        else:
            na.append({'property_id': pid, 'reason': 'harness not built yet in this session (planned: DESIGN.md section %s); not claimed until its check exists' % sec})
    m = {
        'version': 1,
        'setup_cmd': 'python3-vt -m engine.selftest',
        'hooks': {
            'guard': 'ANSI_STRING_VERIF',
            'enable': 'none needed: all observation points are public API (base_str, ansi_settings_at, WITH_ASSERTIONS); checks import /repo/src directly',
            'baseline_off_cmd': 'cd /repo && /venv/bin/python -m pytest -q -p no:cacheprovider --timeout=900',
            'source_commits': [],
            'add_only': True,
        },
        'engines': [{'name': 'xh', 'path': 'engine/', 'serves_properties': [c['property_id'] for c in checks],
                     'kind_free_text': 'CrossHair 0.0.110 core (z3 5.1.0) driven per path with hash-free dict / slice-normaliser extensions; direct z3+cvc5 lemmas for two arithmetic kernels'}],
        'checks': checks,
        'not_applicable': na,
        'notes': 'Solver-based checking of the real code. ./check <id> --tier quick|thorough; evidence/<id>.json is rewritten by every run. known_findings.txt lists fixed/known defects.',
    }
    json.dump(m, open(os.path.join(ROOT, 'MANIFEST.json'), 'w'), indent=1)
    print('checks:', [c['property_id'] for c in checks], 'not claimed:', [n['property_id'] for n in na])


if __name__ == '__main__':
    main()
