#!/usr/bin/env python3
"""Confirm a seeded change and run checks against it.

usage: seedtest.py <seed-dir> <property-id> [<other property ids to run as well>...]

<seed-dir> holds patch.diff and demo.py.  Steps:
  1. scratch worktree of /repo (under /tmp): apply the patch, run the repository test-suite (must pass),
     run the demo (must exit 1); restore, run the demo (must exit 0); remove the worktree.
  2. apply the patch to /repo, run `./check <id> --tier quick` (stopping at the first counter-example),
     undo the patch (git -C /repo checkout -- .).
Writes <seed-dir>/result.json.
"""
import json
import os
import subprocess
import sys
import time

ROOT = os.path.dirname(os.path.dirname(os.path.abspath(__file__)))
REPO = '/repo'
PY = '/venv/bin/python'


def sh(cmd, **kw):
    return subprocess.run(cmd, shell=True, capture_output=True, text=True, **kw)


def confirm(seed):
    wt = '/tmp/seedwt_%d' % os.getpid()
    sh('git -C %s worktree remove --force %s' % (REPO, wt))
    r = sh('git -C %s worktree add -q --detach %s HEAD' % (REPO, wt))
    out = {}
    try:
        patch = os.path.abspath(os.path.join(seed, 'patch.diff'))
        demo = os.path.abspath(os.path.join(seed, 'demo.py'))
        a = sh('git -C %s apply %s' % (wt, patch))
        out['applies'] = a.returncode == 0
        if not out['applies']:
            out['apply_err'] = a.stderr[-400:]
            return out
        t = sh('cd %s && %s -m pytest -q -p no:cacheprovider 2>&1 | tail -3' % (wt, PY))
        out['tests'] = t.stdout.strip().splitlines()[-1] if t.stdout.strip() else ''
        out['tests_pass'] = ' passed' in out['tests'] and 'failed' not in out['tests'] and 'error' not in out['tests']
        d1 = sh('%s %s %s/src' % (PY, demo, wt), timeout=300)
        out['demo_with_change'] = d1.returncode
        sh('git -C %s checkout -- .' % wt)
        d0 = sh('%s %s %s/src' % (PY, demo, wt), timeout=300)
        out['demo_without_change'] = d0.returncode
        out['confirmed'] = out['tests_pass'] and d1.returncode == 1 and d0.returncode == 0
    finally:
        sh('git -C %s worktree remove --force %s' % (REPO, wt))
    return out


def run_checks(seed, props, tier='quick'):
    patch = os.path.abspath(os.path.join(seed, 'patch.diff'))
    res = {}
    st = sh('git -C %s status --porcelain' % REPO)
    if st.stdout.strip():
        raise SystemExit('/repo is not clean: ' + st.stdout)
    a = sh('git -C %s apply %s' % (REPO, patch))
    if a.returncode:
        raise SystemExit('patch does not apply to /repo: ' + a.stderr)
    try:
        for p in props:
            t0 = time.time()
            env = dict(os.environ, VERIF_STOP_ON_VIOLATION='1')
            r = subprocess.run(['./check', p, '--tier', tier], cwd=ROOT, env=env, capture_output=True, text=True)
            lines = r.stdout.splitlines()
            res[p] = {'exit': r.returncode, 'violations': [l for l in lines if l.startswith('VIOLATION')][:3],
                      'summary': [l for l in lines if l.startswith(p + ' tier=')], 'wall_s': round(time.time() - t0, 1),
                      'inconclusive': len([l for l in lines if l.startswith('INCONCLUSIVE')]),
                      'harness_error': [l for l in lines if l.startswith('HARNESS-ERROR')][:2]}
            # keep one replay for the record
            if res[p]['violations']:
                path = res[p]['violations'][0].split('replay=')[1]
                try:
                    res[p]['first_counterexample'] = json.load(open(path))
                except Exception:
                    pass
    finally:
        sh('git -C %s checkout -- .' % REPO)
    return res


def main():
    seed = sys.argv[1]
    props = sys.argv[2:]
    out = {'seed': seed, 'confirm': confirm(seed)}
    if out['confirm'].get('confirmed') and props:
        out['checks'] = run_checks(seed, props)
    json.dump(out, open(os.path.join(seed, os.environ.get('SEED_OUT', 'result.json')), 'w'), indent=1, default=repr)
    c = out['confirm']
    print(seed, 'confirmed' if c.get('confirmed') else 'NOT-CONFIRMED %r' % c)
    for p, r in out.get('checks', {}).items():
        print('  %s exit=%s %s wall=%ss %s' % (p, r['exit'], 'CAUGHT' if r['exit'] == 1 else 'MISSED' if r['exit'] == 0 else 'ERROR', r['wall_s'],
                                             (r['first_counterexample'].get('observed') if r.get('first_counterexample') else '')))


if __name__ == '__main__':
    main()
