#!/usr/bin/env python3
"""Writes seeded/<id>/meta.json from result.json (+ later re-runs) and notes.md, and prints the table for DESIGN.md."""
import glob
import json
import os
import re

ROOT = os.path.dirname(os.path.dirname(os.path.abspath(__file__)))


def needs(notes):
    txt = open(notes).read()
    m = re.search(r'(?im)^[-* ]*\**(needed to manifest|trigger|needs?)[^\n]*\n?(.{0,600})', txt, re.S)
    lines = [l.strip('-* ').strip() for l in txt.splitlines() if l.strip()]
    key = [l for l in lines if re.search(r'(?i)need|trigger|manifest', l)]
    return ' '.join(key[:3])[:700] if key else ' '.join(lines[1:4])[:700]


def main():
    rows = []
    for d in sorted(glob.glob(os.path.join(ROOT, 'seeded', 'C*-*'))):
        name = os.path.basename(d)
        prop = name.split('-')[0]
        res = {}
        for f in ('result.json', 'result2.json'):
            p = os.path.join(d, f)
            if os.path.exists(p):
                r = json.load(open(p))
                res.setdefault('confirm', r.get('confirm'))
                for k, v in (r.get('checks') or {}).items():
                    res.setdefault('checks', {})[k + (':round2' if f == 'result2.json' else '')] = v
        notes = os.path.join(d, 'notes.md')
        files = re.findall(r'^\+\+\+ b/(\S+)', open(os.path.join(d, 'patch.diff')).read(), re.M)
        caught_by = sorted({k.split(':')[0] for k, v in (res.get('checks') or {}).items() if v.get('exit') == 1})
        first = {k: v.get('exit') for k, v in (res.get('checks') or {}).items()}
        meta = {
            'breaks_property': prop,
            'files_touched': files,
            'needs_to_manifest': needs(notes) if os.path.exists(notes) else '',
            'confirmed': res.get('confirm'),
            'what_was_run': ['scratch worktree of /repo HEAD: git apply patch.diff; /venv/bin/python -m pytest -q -p no:cacheprovider (must pass); '
                             '/venv/bin/python demo.py <worktree>/src (must exit 1); git checkout; demo again (must exit 0)',
                             'git -C /repo apply patch.diff; ./check <id> --tier quick (VERIF_STOP_ON_VIOLATION=1); git -C /repo checkout -- .'],
            'check_exit_codes': first,
            'caught_by': caught_by,
            'counterexample': next((v.get('first_counterexample', {}).get('observed') for k, v in (res.get('checks') or {}).items()
                                    if v.get('exit') == 1), None),
        }
        json.dump(meta, open(os.path.join(d, 'meta.json'), 'w'), indent=1, default=repr)
        rows.append((name, ', '.join(files).replace('src/ansi_string/', ''), first, caught_by))
    for r in rows:
        print('| %s | %s | %s | %s |' % (r[0], r[1], ' '.join('%s=%s' % kv for kv in r[2].items()), ', '.join(r[3]) or 'MISSED'))


if __name__ == '__main__':
    main()
