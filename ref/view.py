"""R-view, R-slice and the builders of reachable values (DESIGN.md section 3).

Observations go through the public API only: base_str, ansi_settings_at,
str(), to_str(), len()."""
from engine.api import pick, choose, cover
from ref import term

from ansi_string import AnsiString, AnsiStr, AnsiFormat, AnsiSetting


def S(s, n=None):
    """Per-character setting texts: list (one per character) of list of str."""
    if n is None:
        n = len(s.base_str)
    return [[str(x) for x in s.ansi_settings_at(i)] for i in range(n)]


def V(s, n=None):
    """Per-character setting objects (identity observable)."""
    if n is None:
        n = len(s.base_str)
    return [list(s.ansi_settings_at(i)) for i in range(n)]


def snapshot(s):
    """Everything observable about a value (text, settings table, rendering)."""
    t = s.base_str
    return (t, S(s, len(t)), str(s))


def same_table(a, b):
    if len(a) != len(b):
        return False
    for x, y in zip(a, b):
        if not term.same(x, y):
            return False
    return True


def first_diff(a, b):
    for i, (x, y) in enumerate(zip(a, b)):
        if not term.same(x, y):
            return i
    return None if len(a) == len(b) else min(len(a), len(b))


def norm_slice(a, b, n):
    """Python's slice rule for step 1, written with comparisons (forks
    symbolically).  a, b may be None."""
    if a is None:
        lo = 0
    elif a < 0:
        lo = a + n
        if lo < 0:
            lo = 0
    elif a > n:
        lo = n
    else:
        lo = a
    if b is None:
        hi = n
    elif b < 0:
        hi = b + n
        if hi < 0:
            hi = 0
    elif b > n:
        hi = n
    else:
        hi = b
    if hi < lo:
        hi = lo
    return lo, hi


# ------------------------------------------------------------------ builders
# structural alphabet: (spelling handed to the API, reported setting text)
SIGMA = (
    ('red', '31'),
    ('blue', '34'),
    ('bold', '1'),
    ('no_bold_faint', '22'),
    ('underline', '4'),
    ('[38;5;9', '38;5;9'),
    ('fg_default', '39'),
    ('faint', '2'),
)
SIGMA4 = SIGMA[:4]


def ranges(n):
    """All canonical ranges 0 <= a < b <= n."""
    return [(a, b) for a in range(n) for b in range(a + 1, n + 1)]


TEXT = 'abcdefgh'


def b1_step(s, n, sel, rng, top, sigma=SIGMA4):
    """One builder step: apply sigma[sel] on canonical range #rng; returns the
    (spelling, text) applied or None if a selector is out of range."""
    st = choose(sel, sigma)
    if st is None:
        return None
    r = choose(rng, ranges(n))
    if r is None:
        return None
    s.apply_formatting(st[0], r[0], r[1], topmost=bool(top))
    return st, r


def desc(s):
    """Readable description of a value for samples / counter-examples."""
    return {'text': s.base_str, 'settings': S(s), 'str': str(s)}


def build2(n, k, s1, r1, s2, r2, t2, sigma=SIGMA4, s3=0, r3=0, t3=True):
    """Receiver from up to three builder steps (B1(k)); None when a selector is out of range."""
    s = AnsiString(TEXT[:n])
    if k >= 1 and b1_step(s, n, s1, r1, True, sigma) is None:
        return None
    if k >= 2 and b1_step(s, n, s2, r2, t2, sigma) is None:
        return None
    if k >= 3 and b1_step(s, n, s3, r3, t3, sigma) is None:
        return None
    return s


DIRTY = {'boldness': (1,), 'fg': (31,), 'underline': (4,), 'bg': (48, 5, 9)}


def check_render(s, flags=None, well_formed=True):
    """C01 oracle: every rendering of s, read by the reference terminal, shows base_str with the
    effective style of the reported settings.  Returns a failure tuple or None."""
    t = s.base_str
    n = len(t)
    tab = S(s, n)
    try:
        want = [term.red(x) for x in tab]
    except term.Ambiguous:
        return None if not well_formed else ('settings-not-well-formed', tab)
    combos = flags or [(o, rs, re_) for o in (True, False) for rs in (False, True) for re_ in (False, True)]
    for (o, rs, re_) in combos:
        out = s.to_str(None, o, rs, re_)
        try:
            cells, final, n_sgr = term.interpret(out)
        except term.Ambiguous as e:
            return ('render-not-well-formed', (o, rs, re_), out, str(e))
        if [c for c, _ in cells] != list(t):
            return ('render-text', (o, rs, re_), out)
        for i in range(n):
            if cells[i][1] != want[i]:
                return ('render-style', (o, rs, re_), i, out, tab[i])
        if rs:
            toks = term.tokens(out)
            if not toks or toks[0][0] != 'sgr' or (term.codes_of(toks[0][1]) or [1])[0] != 0:
                return ('no-leading-reset', (o, rs, re_), out)
            cells2, final2, _ = term.interpret(out, DIRTY)
            if cells2 != cells or final2 != final:
                return ('depends-on-prior-state', (o, rs, re_), out)
        if re_ and n_sgr and final != {}:
            return ('not-default-after-reset_end', (o, rs, re_), out)
    if str(s) != s.to_str() or format(s, '') != s.to_str() or s.to_str() != s.to_str(None, True, False, True):
        return ('str-format-to_str-differ', str(s), format(s, ''), s.to_str())
    return None
