"""R-term: reference SGR terminal, written from ECMA-48 / xterm ctlseqs.

Independent of ansi_string (imports nothing from it).  Restricted to the codes
the library documents as known (0-29, 30-39, 40-49, 50-55, 58, 59, 90-97,
100-107); every other code is "unknown" and ignored.

State: dict group -> value (tuple of ints).  The default state is {}.
A code whose meaning is "back to default" for its group deletes the entry
(22, 23, 24, 25, 27, 28, 29, 39, 49, 50, 54, 55, 59 and 10 = primary font).
"""

ESC = '\x1b'

BOLD, ITAL, UNDER, OVER, BLINK, SWAP, HIDE, CROSS, FONT, SPACE, BOX, FG, BG, ULC = (
    'boldness', 'italics', 'underline', 'overline', 'blinking', 'swap', 'visibility',
    'crossed_out', 'font', 'spacing', 'boxing', 'fg', 'bg', 'ul_color')
GROUPS = (BOLD, ITAL, UNDER, OVER, BLINK, SWAP, HIDE, CROSS, FONT, SPACE, BOX, FG, BG, ULC)

# code -> (group, 'set' | 'clear')
TABLE = {}
for _c in (1, 2):
    TABLE[_c] = (BOLD, 'set')
TABLE[3] = (ITAL, 'set')
TABLE[4] = (UNDER, 'set')
TABLE[21] = (UNDER, 'set')
for _c in (5, 6):
    TABLE[_c] = (BLINK, 'set')
TABLE[7] = (SWAP, 'set')
TABLE[8] = (HIDE, 'set')
TABLE[9] = (CROSS, 'set')
TABLE[10] = (FONT, 'clear')
for _c in range(11, 21):
    TABLE[_c] = (FONT, 'set')
TABLE[22] = (BOLD, 'clear')
TABLE[23] = (ITAL, 'clear')
TABLE[24] = (UNDER, 'clear')
TABLE[25] = (BLINK, 'clear')
TABLE[26] = (SPACE, 'set')
TABLE[27] = (SWAP, 'clear')
TABLE[28] = (HIDE, 'clear')
TABLE[29] = (CROSS, 'clear')
for _c in list(range(30, 38)) + list(range(90, 98)):
    TABLE[_c] = (FG, 'set')
TABLE[39] = (FG, 'clear')
for _c in list(range(40, 48)) + list(range(100, 108)):
    TABLE[_c] = (BG, 'set')
TABLE[49] = (BG, 'clear')
TABLE[50] = (SPACE, 'clear')
TABLE[51] = (BOX, 'set')
TABLE[52] = (BOX, 'set')
TABLE[53] = (OVER, 'set')
TABLE[54] = (BOX, 'clear')
TABLE[55] = (OVER, 'clear')
TABLE[59] = (ULC, 'clear')
EXT = {38: FG, 48: BG, 58: ULC}

# the codes the library documents as known
KNOWN = set(TABLE) | set(EXT) | {0}


class Ambiguous(Exception):
    """The statements do not settle how a terminal reads this input."""


def apply_codes(state, codes):
    """Apply a list of integer codes to a state; returns the new state.

    Extended colour groups are recognised at any position.  An incomplete
    group at the tail contributes nothing; an introducer that is not followed
    by a 5/2 selector contributes nothing by itself (reading resumes at the
    next code); colour components outside 0..255 raise Ambiguous."""
    st = dict(state)
    i = 0
    n = len(codes)
    while i < n:
        c = codes[i]
        if c == 0:
            st = {}
            i += 1
        elif c in EXT:
            if i + 1 >= n:
                break                       # bare 38 at the tail
            m = codes[i + 1]
            if m == 5:
                if i + 2 >= n:
                    break                   # 38;5 at the tail
                v = codes[i + 2]
                if v < 0 or v > 255:
                    raise Ambiguous('256-colour index out of range')
                st[EXT[c]] = (c, 5, v)
                i += 3
            elif m == 2:
                if i + 4 >= n:
                    break                   # 38;2;.. at the tail
                rgb = tuple(codes[i + 2:i + 5])
                for v in rgb:
                    if v < 0 or v > 255:
                        raise Ambiguous('rgb component out of range')
                st[EXT[c]] = (c, 2) + rgb
                i += 5
            else:
                # introducer without a 5/2 selector: the incomplete group is the introducer alone; it contributes
                # nothing and reading resumes at the next code, so that a complete group right after it stays
                # intact ("extended-colour groups are kept intact at any position")
                i += 1
        elif c in TABLE:
            g, f = TABLE[c]
            if f == 'set':
                st[g] = (c,)
            else:
                st.pop(g, None)
            i += 1
        else:
            i += 1                          # unknown: ignored
    return st


def codes_of(text):
    """Integer codes of one SGR parameter string ('' -> [0]); None when a
    parameter is not a plain decimal number (outside "well-formed")."""
    out = []
    for p in text.split(';'):
        if p == '':
            out.append(0)
        elif p.isascii() and p.isdigit():
            out.append(int(p))
        else:
            return None
    return out


def tokens(s):
    """Tokenise terminal input: yields ('sgr', params) / ('chr', c).

    A control sequence is ESC [ <chars outside 0x40-0x7E>* <final 0x40-0x7E>.
    SGR = final 'm'.  Other complete control sequences and an unterminated
    one are yielded character by character (they are not SGR; the library keeps
    them verbatim in the text)."""
    out = []
    i = 0
    n = len(s)
    while i < n:
        if s[i] == ESC and i + 1 < n and s[i + 1] == '[':
            j = i + 2
            while j < n and not (0x40 <= ord(s[j]) <= 0x7E):
                j += 1
            if j < n and s[j] == 'm':
                out.append(('sgr', s[i + 2:j]))
                i = j + 1
                continue
            # non-SGR or unterminated: verbatim
            end = j + 1 if j < n else n
            for k in range(i, end):
                out.append(('chr', s[k]))
            i = end
        else:
            out.append(('chr', s[i]))
            i += 1
    return out


def interpret(s, prior=None):
    """Feed s to the terminal.  Returns (cells, final_state, n_sgr) with
    cells = [(char, state-dict)].  Raises Ambiguous for malformed params."""
    st = dict(prior or {})
    cells = []
    n_sgr = 0
    for kind, v in tokens(s):
        if kind == 'chr':
            cells.append((v, dict(st)))
        else:
            n_sgr += 1
            codes = codes_of(v)
            if codes is None:
                raise Ambiguous('non-numeric SGR parameter %r' % (v,))
            st = apply_codes(st, codes)
    return cells, st, n_sgr


def strip_sgr(s):
    """s with every 'ESC [ <non-final>* m' removed."""
    return ''.join(v for kind, v in tokens(s) if kind == 'chr')


# ---------------------------------------------------------------- settings
def setting_codes(text):
    """codes of one setting text, or None if not numeric."""
    return codes_of(text)


def group_of(text):
    """Effect group a setting text belongs to (by its first code)."""
    codes = codes_of(text)
    if not codes:
        return 'other:' + text
    c = codes[0]
    if c in EXT:
        return EXT[c]
    if c in TABLE:
        return TABLE[c][0]
    if c == 0:
        return 'reset'
    return 'other:' + text


def red(settings, prior=None):
    """Effective style (state) of a list of setting texts applied in order."""
    st = dict(prior or {})
    for t in settings:
        codes = codes_of(t)
        if codes is None:
            raise Ambiguous('non-numeric setting %r' % (t,))
        st = apply_codes(st, codes)
    return st


def same(a, b):
    """Same settings with the same precedence among conflicting settings:
    equal as multisets and, per effect group, equal subsequences."""
    if len(a) != len(b):
        return False
    if sorted(a) != sorted(b):
        return False
    ga = {}
    for t in a:
        ga.setdefault(group_of(t), []).append(t)
    gb = {}
    for t in b:
        gb.setdefault(group_of(t), []).append(t)
    return ga == gb


def single_group(text):
    """True iff text is exactly one well-formed known parameter group other
    than reset: one known code, or 38/48/58 ; 5 ; n or ; 2 ; r ; g ; b."""
    codes = codes_of(text)
    if not codes or text == '' or '' in text.split(';'):
        return False
    c = codes[0]
    if c in EXT:
        if len(codes) == 3 and codes[1] == 5:
            return 0 <= codes[2] <= 255
        if len(codes) == 5 and codes[1] == 2:
            return all(0 <= v <= 255 for v in codes[2:])
        return False
    return len(codes) == 1 and c in TABLE


def complete_groups(text):
    """True iff the setting text consists of complete groups only: no extended-colour introducer that is cut off
    (38 / 38;5 / 38;2;r;g at the tail) or lacks its 5/2 selector.  Such a text changes meaning when another
    setting is rendered after it in the same sequence, so it is not a well-formed setting."""
    codes = codes_of(text)
    if codes is None:
        return False
    i, n = 0, len(codes)
    while i < n:
        c = codes[i]
        if c in EXT:
            if i + 1 >= n:
                return False
            m = codes[i + 1]
            if m == 5:
                if i + 2 >= n:
                    return False
                i += 3
            elif m == 2:
                if i + 4 >= n:
                    return False
                i += 5
            else:
                return False
        else:
            i += 1
    return True
